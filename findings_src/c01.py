RT = "docstring_roundtrip"
FINDINGS = [
    dict(
        id="C01-numpydoc-without-types-drops-names",
        property="C01",
        pattern=dict(check=RT, field="names_in_text", style="numpydoc", emit_types=False),
        what="NumPy style with emit_types=False emits parameter descriptions without the parameter names; nothing can be parsed back",
        site="cdd/shared/docstring_utils.py:emit_param_str (numpydoc branch: the 'name : typ' line is only produced when emit_type is true); "
        "the NumPy parser in turn ignores 'name :' lines without a type, so repairing the emitter alone does not help",
        example="emit {'alpha': {'typ': 'int', 'doc': 'the value'}} with docstring_format='numpydoc', emit_types=False -> "
        "'Parameters\\n----------\\n    the value\\n'",
    ),
    dict(
        id="C01-none-default-comes-back-as-string",
        property="C01",
        pattern=dict(check=RT, field="default", expected="None", observed="str"),
        what="a None default ('Defaults to ```(None)```') is parsed back as the string '(None)'",
        site="cdd/shared/defaults_utils.py:extract_default (default.strip(' \\t`') removes the code quotes that mark None)",
        example="{'alpha': {'typ': 'Optional[int]', 'doc': 'the value', 'default': NoneStr}}, any style, emit_default_doc=True",
    ),
    dict(
        id="C01-none-default-type-guessed-as-str",
        property="C01",
        pattern=dict(check=RT, field="typ", emit_types=False, default_kind="None", observed={"in": ["str", "Optional[str]"]}),
        what="consequence of the previous finding when the type is not written: the type is inferred from the string '(None)'",
        site="cdd/shared/docstring_parsers.py:_infer_default / _set_name_and_type",
        example="same input with emit_types=False: typ comes back 'Optional[str]' (or 'str') instead of absent/'Optional[int]'",
    ),
    dict(
        id="C01-code-default-loses-quotes",
        property="C01",
        pattern=dict(check=RT, field="default", expected="code", observed="str"),
        what="a code-quoted default (```['a', 'b']```) is parsed back without its code quotes, i.e. as a plain string",
        site="cdd/shared/defaults_utils.py:extract_default (default.strip(' \\t`'))",
        example="{'alpha': {'typ': 'List[str]', 'doc': 'the value', 'default': \"```['a', 'b']```\"}}, any style",
    ),
    dict(
        id="C01-code-default-type-guessed-as-str",
        property="C01",
        pattern=dict(check=RT, field="typ", emit_types=False, default_kind="code", observed="str"),
        what="consequence of the previous finding when the type is not written: 'str' is inferred from the de-quoted expression",
        site="cdd/shared/docstring_parsers.py:_infer_default",
        example="same input with emit_types=False: typ comes back 'str'",
    ),
    dict(
        id="C01-dotted-code-default-parse-raises",
        property="C01",
        pattern=dict(check=RT, field="parse", observed="raises ValueError", style="rest", emit_types=False, dotted_code_default=True),
        what="ReST text 'Defaults to ```pkg.Kind.A```' without a :type: line makes the parser raise ValueError (literal_eval of a dotted name)",
        site="cdd/shared/docstring_parsers.py:_infer_default (literal_eval on the de-quoted expression)",
        example="{'alpha': {'typ': 'pkg.Kind', 'doc': 'the value', 'default': '```pkg.Kind.A```'}}, rest, emit_types=False",
    ),
    dict(
        id="C01-empty-string-default-lost",
        property="C01",
        pattern=dict(check=RT, field="default", expected="emptystr", observed={"in": ["ABSENT", "str", "None"]}),
        what="an empty-string default is emitted as 'Defaults to ' with nothing after it and is lost (or read as '()', or - for an Optional type after a defaulted neighbour - replaced by None) on the way back",
        site="cdd/shared/defaults_utils.py:set_default_doc (quote('') yields '') / extract_default",
        example="{'alpha': {'typ': 'str', 'doc': 'the value', 'default': ''}}, any style, emit_default_doc=True",
    ),
    dict(
        id="C01-empty-string-default-leaves-prose",
        property="C01",
        pattern=dict(check=RT, field="doc", default_kind="emptystr", observed="suffix_added"),
        what="same input: the dangling 'Defaults to' stays in the description",
        site="cdd/shared/defaults_utils.py:extract_default",
        example="as above; description comes back 'the value. Defaults to'",
    ),
    dict(
        id="C01-name-ending-in-kwargs-forces-optional-dict",
        property="C01",
        pattern=dict(check=RT, field="typ", observed="Optional[dict]", kwargs_name=True),
        what="a parameter whose *name* ends in 'kwargs' (a plain identifier such as some_kwargs) comes back typed Optional[dict] whatever type was written",
        site="cdd/shared/docstring_parsers.py:_set_name_and_type (name.endswith('kwargs') special case meant for **kwargs)",
        example="{'some_kwargs': {'typ': 'int', 'doc': 'the value'}} -> typ 'Optional[dict]' (ReST; Google/NumPy for dict)",
    ),
    dict(
        id="C01-double-quote-in-string-default-not-escaped",
        property="C01",
        pattern=dict(check=RT, field="parse", observed="raises SyntaxError", emit_default_doc=True, quote_in_default=True),
        what="a string default containing a double quote is emitted as \"say \"hi\"\" (quotes not escaped) and the parser raises SyntaxError reading it back",
        site="cdd/shared/pure_utils.py:quote / cdd/shared/defaults_utils.py:set_default_doc, _parse_out_default_and_doc (literal_eval of the prose)",
        example="{'alpha': {'typ': 'str', 'doc': 'the value', 'default': 'say \"hi\"'}}, any style, emit_default_doc=True",
    ),
    dict(
        id="C01-string-default-cut-at-full-stop",
        property="C01",
        pattern=dict(check=RT, field={"in": ["parse", "default"]}, observed={"in": ["raises SyntaxError", "str"]}, emit_default_doc=True, dot_in_default=True),
        what="a string default that contains a full stop not followed by a digit ('a.b') is cut at the dot when the prose is read back ('Defaults to \"a.b\"' -> '\"a'): "
        "the value changes or the parser raises SyntaxError on the unterminated string",
        site="cdd/shared/defaults_utils.py:extract_default (the scan stops at the first '.' that is not followed by a digit, without regard to quotes)",
        example="{'alpha': {'typ': 'str', 'doc': 'the value', 'default': 'a.b'}}, any style, emit_default_doc=True",
    ),
    dict(
        id="C01-google-multiline-description-continuation-unindented",
        property="C01",
        pattern=dict(check=RT, field="continuation_indent", style="google"),
        what="Google style: the second and further lines of a multi-line description are emitted at column 0 instead of indented under their parameter; read back they end the "
        "Args section (description truncated, rest appended to the header, later defaults and the return type lost)",
        site="cdd/shared/docstring_utils.py:emit_param_str (google branch concatenates the description without indenting embedded newlines)",
        example="{'alpha': {'typ': 'int', 'doc': 'the value\\nsecond line of it'}} with docstring_format='google'",
    ),
]
FIXED = [
    "fixed: property=C01 7e7c349 NumPy style: a type wider than the wrap width was wrapped on its 'name : type' line; read back its second half was a parameter of its own and the description was lost",
    'fixed: property=C01 e628782 NumPy style: a return description longer than one line (wrapped by the emitter) came back cut after its first line',
    "fixed: property=C01 1666a8a NumPy style, word wrap: a description whose length put the wrap point between 'Defaults' and 'to' (or inside a quoted default with a space) lost or changed its default when read back, or the parser raised (found by the wrap-boundary length sweep and by DOCTRANS_LINE_LENGTH=40)",
    'fixed: property=C01 f4150fc Google style: continuation lines of a multi-line description were emitted at column 0; read back they ended the Args section (description truncated, rest appended to the header, later defaults lost)',
    "fixed: property=C01 fc46805 a quoted string default containing a full stop ('a.b') was cut at the dot when read back from the prose, or the parser raised SyntaxError",
    'fixed: property=C01 26237d2 a string default containing a double quote was emitted as "say "hi"" and the Google/NumPy parsers raised SyntaxError reading it back',
    "fixed: property=C01 efa4dbd an empty-string default was emitted as a dangling 'Defaults to': the default was lost and the words stayed in the description",
    "fixed: property=C01 5a0ba55 negative int default ('Defaults to -5') came back as float -5.0 unless the type was exactly 'int'",
    "fixed: property=C01 f1ccb73 Google/NumPy return entry acquired an invented default (0/''/False) once any parameter had a default",
    "fixed: property=C01 0d88ac8 NumPy style + word_wrap: continuation lines of a long description were emitted unindented and parsed as extra parameters",
]

# patterns of defects that have since been repaired in the repository (see FIXED): no longer known findings
FINDINGS += [
    dict(
        id="C01-google-returns-without-args-section-not-split",
        property="C01",
        pattern=dict(check=RT, style="google", n_params=0, entry="return", field={"in": ["doc", "typ"]}),
        what="Google style, an interface without parameters: the Returns section ('Returns:\\n  int:\\n   the result') is read back as one description "
        "('  int:   the result'), the type is lost (the type/description split of the return entry only happens on the way out of an Args section)",
        site="cdd/shared/docstring_parsers.py:_scan_phase_numpydoc_and_google (the return entry is only cut into type and description in the branch "
        "that leaves the parameter section; when the docstring starts at 'Returns:' the lines are stacked as they are)",
        example="{'params': {}, 'returns': {'return_type': {'typ': 'int', 'doc': 'the result'}}}, docstring_format='google' (the emitter half of this - "
        "'Returns:  int:' on one line - was repaired in fff760c; the NumPy style round-trips since then)",
    ),
    dict(
        id="C01-numpydoc-return-without-type-line",
        property="C01",
        pattern=dict(check=RT, style="numpydoc", n_params=0, entry="return", emit_types=False),
        what="NumPy style, return entry emitted without its type line (emit_types=False), no parameters: the indented description is read back as the type "
        "(same root as C01-numpydoc-without-types-drops-names: the NumPy emitter writes entries without the line that carries them)",
        site="cdd/shared/docstring_utils.py:emit_param_str (numpydoc branch) / cdd/shared/docstring_parsers.py:_return_parse_phase_numpydoc_and_google",
        example="{'params': {}, 'returns': {'return_type': {'typ': 'int', 'doc': 'the result'}}}, docstring_format='numpydoc', emit_types=False -> "
        "'Returns\\n-------\\n    the result' -> typ '    the result'",
    ),
    dict(
        id="C01-numpydoc-description-only-return",
        property="C01",
        pattern=dict(check=RT, style="numpydoc", partial_return="doconly"),
        what="NumPy style, a return entry that has a description but no type: emitted as a bare indented line under 'Returns/-------'; read back as the type "
        "(no parameters) or, after a parameter section, as two parameters named 'Returns' and '-------' and no return entry",
        site="as above",
        example="{'params': {'alpha': {'typ': 'int', 'doc': 'the value'}}, 'returns': {'return_type': {'doc': 'the result'}}}, docstring_format='numpydoc'",
    ),
    dict(
        id="C01-google-type-only-return",
        property="C01",
        pattern=dict(check=RT, style="google", partial_return="typonly"),
        what="Google style, a return entry that has a type but no description: 'Returns:\\n  int:' is read back as the description 'int:' without a type; "
        "with emit_types=False an empty 'Returns:' section is still emitted and read back as an (empty) return entry",
        site="cdd/shared/docstring_parsers.py:_return_parse_phase_numpydoc_and_google / cdd/docstring/emit.py",
        example="{'params': {'alpha': {'typ': 'int', 'doc': 'the value'}}, 'returns': {'return_type': {'typ': 'int'}}}, docstring_format='google'",
    ),
]
FIXED_IDS = ['C01-double-quote-in-string-default-not-escaped', 'C01-empty-string-default-leaves-prose', 'C01-empty-string-default-lost', 'C01-google-multiline-description-continuation-unindented', 'C01-string-default-cut-at-full-stop']
FINDINGS = [f for f in FINDINGS if f["id"] not in FIXED_IDS]
