"""C02 known findings. Patterns were bootstrapped from the first exhaustive run on the pinned tree (mc/kfgen.py: one pattern per
(format, field, expected kind, observed kind), narrowed by every signature key whose values inside the group are a strict subset of the
domain), then reviewed by root cause: ROOTS below assigns the explanation and the code site."""
RAW = [
 {
  "id": "C02-function-returns-00",
  "property": "C02",
  "pattern": {
   "check": "format_roundtrip",
   "fmt": "function",
   "field": "returns",
   "expected": "present",
   "observed": "absent",
   "style": "numpydoc",
   "type_annotations": False
  },
  "what": "",
  "site": "",
  "example": "{\"input\": {\"params\": [[\"alpha\", {\"doc\": \"the value\", \"typ\": \"int\", \"default\": 5}]], \"returns\": {\"doc\": \"the result\", \"typ\": \"int\"}}, \"cfg\": {\"fmt\": \"function\", \"kw\": {\"type_annotations\": False, \"emit_as_kwonlyargs\": False}, \"style\": \"numpydoc\", \"emit_default_doc\": False}, \"expected\": \"{'name': 'return_type', 'typ': 'int', 'default': '<absent>', 'doc': 'the result', 'keys': ['doc', 'typ']}\", \"observed\": \"None\"}"
 },
 {
  "id": "C02-function-typ-01",
  "property": "C02",
  "pattern": {
   "check": "format_roundtrip",
   "fmt": "function",
   "field": "typ",
   "expected": "int",
   "observed": "None",
   "style": {
    "in": [
     "google",
     "numpydoc"
    ]
   },
   "type_annotations": False,
   "typ_class": "int",
   "default_kind": "ABSENT"
  },
  "what": "",
  "site": "",
  "example": "{\"input\": {\"params\": [[\"alpha\", {\"doc\": \"the value\", \"typ\": \"int\", \"default\": 5}]], \"returns\": {\"doc\": \"the result\", \"typ\": \"int\"}}, \"cfg\": {\"fmt\": \"function\", \"kw\": {\"type_annotations\": False, \"emit_as_kwonlyargs\": False}, \"style\": \"google\", \"emit_default_doc\": False}, \"expected\": \"return_type.typ = 'int'\", \"observed\": \"None\"}"
 },
 {
  "id": "C02-argparse-default-02",
  "property": "C02",
  "pattern": {
   "check": "format_roundtrip",
   "fmt": "argparse",
   "field": "default",
   "expected": "ABSENT",
   "observed": "int",
   "entry": "param",
   "typ_class": {
    "in": [
     "List",
     "int"
    ]
   },
   "default_kind": "ABSENT"
  },
  "what": "",
  "site": "",
  "example": "{\"input\": {\"params\": [[\"alpha\", {\"doc\": \"the value\", \"typ\": \"int\"}], [\"beta\", {\"doc\": \"the value\", \"typ\": \"int\", \"default\": 5}]], \"returns\": None}, \"cfg\": {\"fmt\": \"argparse\", \"kw\": {}, \"style\": \"rest\", \"emit_default_doc\": False}, \"expected\": \"alpha.default = '<absent>'\", \"observed\": \"0\"}"
 },
 {
  "id": "C02-function-typ-03",
  "property": "C02",
  "pattern": {
   "check": "format_roundtrip",
   "fmt": "function",
   "field": "typ",
   "expected": "str",
   "observed": "None",
   "style": "numpydoc",
   "type_annotations": False,
   "entry": "param",
   "typ_class": "str",
   "default_kind": "ABSENT"
  },
  "what": "",
  "site": "",
  "example": "{\"input\": {\"params\": [[\"alpha\", {\"doc\": \"the value\", \"typ\": \"str\"}], [\"beta\", {\"doc\": \"the value\", \"typ\": \"int\", \"default\": 5}]], \"returns\": None}, \"cfg\": {\"fmt\": \"function\", \"kw\": {\"type_annotations\": False, \"emit_as_kwonlyargs\": False}, \"style\": \"numpydoc\", \"emit_default_doc\": False}, \"expected\": \"alpha.typ = 'str'\", \"observed\": \"None\"}"
 },
 {
  "id": "C02-argparse-default-04",
  "property": "C02",
  "pattern": {
   "check": "format_roundtrip",
   "fmt": "argparse",
   "field": "default",
   "expected": "ABSENT",
   "observed": "emptystr",
   "entry": "param",
   "typ_class": {
    "in": [
     "List",
     "Literal",
     "Union",
     "dotted",
     "list",
     "str"
    ]
   },
   "default_kind": "ABSENT"
  },
  "what": "",
  "site": "",
  "example": "{\"input\": {\"params\": [[\"alpha\", {\"doc\": \"the value\", \"typ\": \"str\"}], [\"beta\", {\"doc\": \"the value\", \"typ\": \"int\", \"default\": 5}]], \"returns\": None}, \"cfg\": {\"fmt\": \"argparse\", \"kw\": {}, \"style\": \"rest\", \"emit_default_doc\": False}, \"expected\": \"alpha.default = '<absent>'\", \"observed\": \"''\"}"
 },
 {
  "id": "C02-function-typ-05",
  "property": "C02",
  "pattern": {
   "check": "format_roundtrip",
   "fmt": "function",
   "field": "typ",
   "expected": "Literal['a', 'b']",
   "observed": "str",
   "style": "numpydoc",
   "type_annotations": False,
   "entry": "param",
   "typ_class": "Literal",
   "default_kind": "str"
  },
  "what": "",
  "site": "",
  "example": "{\"input\": {\"params\": [[\"alpha\", {\"doc\": \"the value\", \"typ\": \"int\", \"default\": 5}], [\"beta\", {\"doc\": \"the value\", \"typ\": \"Literal['a', 'b']\", \"default\": \"a\"}]], \"returns\": None}, \"cfg\": {\"fmt\": \"function\", \"kw\": {\"type_annotations\": False, \"emit_as_kwonlyargs\": False}, \"style\": \"numpydoc\", \"emit_default_doc\": False}, \"expected\": \"beta.typ = \\\"Literal['a', 'b']\\\"\", \"observed\": \"'str'\"}"
 },
 {
  "id": "C02-function-typ-06",
  "property": "C02",
  "pattern": {
   "check": "format_roundtrip",
   "fmt": "function",
   "field": "typ",
   "expected": "List[str]",
   "observed": "None",
   "style": "numpydoc",
   "type_annotations": False,
   "entry": "param",
   "typ_class": "List",
   "default_kind": {
    "in": [
     "ABSENT",
     "code"
    ]
   }
  },
  "what": "",
  "site": "",
  "example": "{\"input\": {\"params\": [[\"alpha\", {\"doc\": \"the value\", \"typ\": \"List[str]\"}], [\"beta\", {\"doc\": \"the value\", \"typ\": \"int\", \"default\": 5}]], \"returns\": None}, \"cfg\": {\"fmt\": \"function\", \"kw\": {\"type_annotations\": False, \"emit_as_kwonlyargs\": False}, \"style\": \"numpydoc\", \"emit_default_doc\": False}, \"expected\": \"alpha.typ = 'List[str]'\", \"observed\": \"None\"}"
 },
 {
  "id": "C02-function-default-07",
  "property": "C02",
  "pattern": {
   "check": "format_roundtrip",
   "fmt": "function",
   "field": "default",
   "expected": "None",
   "observed": "str",
   "style": {
    "in": [
     "google",
     "rest"
    ]
   },
   "emit_default_doc": True,
   "entry": "param",
   "typ_class": "Optional",
   "default_kind": "None",
   "doc_kind": "all_doc"
  },
  "what": "",
  "site": "",
  "example": "{\"input\": {\"params\": [[\"alpha\", {\"doc\": \"the value\", \"typ\": \"int\", \"default\": 5}], [\"beta\", {\"doc\": \"the value\", \"typ\": \"Optional[str]\", \"default\": \"```(None)```\"}]], \"returns\": None}, \"cfg\": {\"fmt\": \"function\", \"kw\": {\"type_annotations\": True, \"emit_as_kwonlyargs\": False}, \"style\": \"rest\", \"emit_default_doc\": True}, \"expected\": \"beta.default = '```(None)```'\", \"observed\": \"'(None)'\"}"
 },
 {
  "id": "C02-function-typ-08",
  "property": "C02",
  "pattern": {
   "check": "format_roundtrip",
   "fmt": "function",
   "field": "typ",
   "expected": "Optional[str]",
   "observed": "None",
   "style": "numpydoc",
   "type_annotations": False,
   "entry": "param",
   "typ_class": "Optional",
   "default_kind": {
    "in": [
     "ABSENT",
     "None"
    ]
   }
  },
  "what": "",
  "site": "",
  "example": "{\"input\": {\"params\": [[\"alpha\", {\"doc\": \"the value\", \"typ\": \"int\", \"default\": 5}], [\"beta\", {\"doc\": \"the value\", \"typ\": \"Optional[str]\", \"default\": \"```(None)```\"}]], \"returns\": None}, \"cfg\": {\"fmt\": \"function\", \"kw\": {\"type_annotations\": False, \"emit_as_kwonlyargs\": False}, \"style\": \"numpydoc\", \"emit_default_doc\": False}, \"expected\": \"beta.typ = 'Optional[str]'\", \"observed\": \"None\"}"
 },
 {
  "id": "C02-argparse-default-09",
  "property": "C02",
  "pattern": {
   "check": "format_roundtrip",
   "fmt": "argparse",
   "field": "default",
   "expected": "None",
   "observed": "ABSENT",
   "entry": "param",
   "typ_class": "Optional",
   "default_kind": "None"
  },
  "what": "",
  "site": "",
  "example": "{\"input\": {\"params\": [[\"alpha\", {\"doc\": \"the value\", \"typ\": \"int\", \"default\": 5}], [\"beta\", {\"doc\": \"the value\", \"typ\": \"Optional[str]\", \"default\": \"```(None)```\"}]], \"returns\": None}, \"cfg\": {\"fmt\": \"argparse\", \"kw\": {}, \"style\": \"rest\", \"emit_default_doc\": False}, \"expected\": \"beta.default = '```(None)```'\", \"observed\": \"'<absent>'\"}"
 },
 {
  "id": "C02-function-typ-10",
  "property": "C02",
  "pattern": {
   "check": "format_roundtrip",
   "fmt": "function",
   "field": "typ",
   "expected": "Optional[int]",
   "observed": "None",
   "style": "numpydoc",
   "type_annotations": False,
   "entry": "param",
   "typ_class": "Optional",
   "default_kind": {
    "in": [
     "ABSENT",
     "None"
    ]
   }
  },
  "what": "",
  "site": "",
  "example": "{\"input\": {\"params\": [[\"alpha\", {\"doc\": \"the value\", \"typ\": \"Optional[int]\"}], [\"beta\", {\"doc\": \"the value\", \"typ\": \"int\", \"default\": 5}]], \"returns\": None}, \"cfg\": {\"fmt\": \"function\", \"kw\": {\"type_annotations\": False, \"emit_as_kwonlyargs\": False}, \"style\": \"numpydoc\", \"emit_default_doc\": False}, \"expected\": \"alpha.typ = 'Optional[int]'\", \"observed\": \"None\"}"
 },
 {
  "id": "C02-function-typ-11",
  "property": "C02",
  "pattern": {
   "check": "format_roundtrip",
   "fmt": "function",
   "field": "typ",
   "expected": "Optional[int]",
   "observed": "int",
   "style": "numpydoc",
   "type_annotations": False,
   "entry": "param",
   "typ_class": "Optional",
   "default_kind": {
    "in": [
     "int",
     "negint"
    ]
   }
  },
  "what": "",
  "site": "",
  "example": "{\"input\": {\"params\": [[\"alpha\", {\"doc\": \"the value\", \"typ\": \"Optional[int]\", \"default\": 5}]], \"returns\": None}, \"cfg\": {\"fmt\": \"function\", \"kw\": {\"type_annotations\": False, \"emit_as_kwonlyargs\": False}, \"style\": \"numpydoc\", \"emit_default_doc\": False}, \"expected\": \"alpha.typ = 'Optional[int]'\", \"observed\": \"'int'\"}"
 },
 {
  "id": "C02-function-typ-12",
  "property": "C02",
  "pattern": {
   "check": "format_roundtrip",
   "fmt": "function",
   "field": "typ",
   "expected": "Union[int, str]",
   "observed": "int",
   "style": "numpydoc",
   "type_annotations": False,
   "entry": "param",
   "typ_class": "Union",
   "default_kind": {
    "in": [
     "int",
     "negint"
    ]
   }
  },
  "what": "",
  "site": "",
  "example": "{\"input\": {\"params\": [[\"alpha\", {\"doc\": \"the value\", \"typ\": \"Union[int, str]\", \"default\": 5}]], \"returns\": None}, \"cfg\": {\"fmt\": \"function\", \"kw\": {\"type_annotations\": False, \"emit_as_kwonlyargs\": False}, \"style\": \"numpydoc\", \"emit_default_doc\": False}, \"expected\": \"alpha.typ = 'Union[int, str]'\", \"observed\": \"'int'\"}"
 },
 {
  "id": "C02-argparse-typ-13",
  "property": "C02",
  "pattern": {
   "check": "format_roundtrip",
   "fmt": "argparse",
   "field": "typ",
   "expected": "Union[int, str]",
   "observed": "int",
   "entry": "param",
   "typ_class": "Union",
   "default_kind": {
    "in": [
     "int",
     "negint"
    ]
   }
  },
  "what": "",
  "site": "",
  "example": "{\"input\": {\"params\": [[\"alpha\", {\"doc\": \"the value\", \"typ\": \"Union[int, str]\", \"default\": 5}]], \"returns\": None}, \"cfg\": {\"fmt\": \"argparse\", \"kw\": {}, \"style\": \"rest\", \"emit_default_doc\": False}, \"expected\": \"alpha.typ = 'Union[int, str]'\", \"observed\": \"'int'\"}"
 },
 {
  "id": "C02-function-typ-14",
  "property": "C02",
  "pattern": {
   "check": "format_roundtrip",
   "fmt": "function",
   "field": "typ",
   "expected": "Optional[float]",
   "observed": "float",
   "style": "numpydoc",
   "type_annotations": False,
   "entry": "param",
   "typ_class": "Optional",
   "default_kind": {
    "in": [
     "float",
     "negfloat"
    ]
   }
  },
  "what": "",
  "site": "",
  "example": "{\"input\": {\"params\": [[\"alpha\", {\"doc\": \"the value\", \"typ\": \"Optional[float]\", \"default\": 0.5}]], \"returns\": None}, \"cfg\": {\"fmt\": \"function\", \"kw\": {\"type_annotations\": False, \"emit_as_kwonlyargs\": False}, \"style\": \"numpydoc\", \"emit_default_doc\": False}, \"expected\": \"alpha.typ = 'Optional[float]'\", \"observed\": \"'float'\"}"
 },
 {
  "id": "C02-function-typ-15",
  "property": "C02",
  "pattern": {
   "check": "format_roundtrip",
   "fmt": "function",
   "field": "typ",
   "expected": "Optional[str]",
   "observed": "str",
   "style": "numpydoc",
   "type_annotations": False,
   "entry": "param",
   "typ_class": "Optional",
   "default_kind": {
    "in": [
     "emptystr",
     "str"
    ]
   }
  },
  "what": "",
  "site": "",
  "example": "{\"input\": {\"params\": [[\"alpha\", {\"doc\": \"the value\", \"typ\": \"Optional[str]\", \"default\": \"a\"}]], \"returns\": None}, \"cfg\": {\"fmt\": \"function\", \"kw\": {\"type_annotations\": False, \"emit_as_kwonlyargs\": False}, \"style\": \"numpydoc\", \"emit_default_doc\": False}, \"expected\": \"alpha.typ = 'Optional[str]'\", \"observed\": \"'str'\"}"
 },
 {
  "id": "C02-function-typ-16",
  "property": "C02",
  "pattern": {
   "check": "format_roundtrip",
   "fmt": "function",
   "field": "typ",
   "expected": "Optional[bool]",
   "observed": "bool",
   "style": "numpydoc",
   "type_annotations": False,
   "entry": "param",
   "typ_class": "Optional",
   "default_kind": "bool"
  },
  "what": "",
  "site": "",
  "example": "{\"input\": {\"params\": [[\"alpha\", {\"doc\": \"the value\", \"typ\": \"Optional[bool]\", \"default\": True}]], \"returns\": None}, \"cfg\": {\"fmt\": \"function\", \"kw\": {\"type_annotations\": False, \"emit_as_kwonlyargs\": False}, \"style\": \"numpydoc\", \"emit_default_doc\": False}, \"expected\": \"alpha.typ = 'Optional[bool]'\", \"observed\": \"'bool'\"}"
 },
 {
  "id": "C02-function-default-17",
  "property": "C02",
  "pattern": {
   "check": "format_roundtrip",
   "fmt": "function",
   "field": "default",
   "expected": "code",
   "observed": "str",
   "style": {
    "in": [
     "google",
     "rest"
    ]
   },
   "emit_default_doc": True,
   "entry": "param",
   "typ_class": {
    "in": [
     "List",
     "dict",
     "dotted",
     "list"
    ]
   },
   "default_kind": "code",
   "doc_kind": "all_doc"
  },
  "what": "",
  "site": "",
  "example": "{\"input\": {\"params\": [[\"alpha\", {\"doc\": \"the value\", \"typ\": \"List[str]\", \"default\": \"```['a', 'b']```\"}]], \"returns\": None}, \"cfg\": {\"fmt\": \"function\", \"kw\": {\"type_annotations\": True, \"emit_as_kwonlyargs\": False}, \"style\": \"rest\", \"emit_default_doc\": True}, \"expected\": \"alpha.default = \\\"```['a', 'b']```\\\"\", \"observed\": \"\\\"['a', 'b']\\\"\"}"
 },
 {
  "id": "C02-argparse-default-18",
  "property": "C02",
  "pattern": {
   "check": "format_roundtrip",
   "fmt": "argparse",
   "field": "default",
   "expected": "code",
   "observed": "str",
   "entry": "param",
   "typ_class": {
    "in": [
     "List",
     "dict",
     "list"
    ]
   },
   "default_kind": "code"
  },
  "what": "",
  "site": "",
  "example": "{\"input\": {\"params\": [[\"alpha\", {\"doc\": \"the value\", \"typ\": \"List[str]\", \"default\": \"```['a', 'b']```\"}]], \"returns\": None}, \"cfg\": {\"fmt\": \"argparse\", \"kw\": {}, \"style\": \"rest\", \"emit_default_doc\": False}, \"expected\": \"alpha.default = \\\"```['a', 'b']```\\\"\", \"observed\": \"'[\\\"a\\\", \\\"b\\\"]'\"}"
 },
 {
  "id": "C02-class-typ-19",
  "property": "C02",
  "pattern": {
   "check": "format_roundtrip",
   "fmt": "class",
   "field": "typ",
   "expected": "pkg.Kind",
   "observed": "None",
   "entry": "param",
   "typ_class": "dotted",
   "default_kind": "code"
  },
  "what": "",
  "site": "",
  "example": "{\"input\": {\"params\": [[\"alpha\", {\"doc\": \"the value\", \"typ\": \"pkg.Kind\", \"default\": \"```pkg.Kind.A```\"}]], \"returns\": None}, \"cfg\": {\"fmt\": \"class\", \"kw\": {}, \"style\": \"rest\", \"emit_default_doc\": False}, \"expected\": \"alpha.typ = 'pkg.Kind'\", \"observed\": \"None\"}"
 },
 {
  "id": "C02-pydantic-typ-20",
  "property": "C02",
  "pattern": {
   "check": "format_roundtrip",
   "fmt": "pydantic",
   "field": "typ",
   "expected": "pkg.Kind",
   "observed": "None",
   "entry": "param",
   "typ_class": "dotted",
   "default_kind": "code"
  },
  "what": "",
  "site": "",
  "example": "{\"input\": {\"params\": [[\"alpha\", {\"doc\": \"the value\", \"typ\": \"pkg.Kind\", \"default\": \"```pkg.Kind.A```\"}]], \"returns\": None}, \"cfg\": {\"fmt\": \"pydantic\", \"kw\": {}, \"style\": \"rest\", \"emit_default_doc\": False}, \"expected\": \"alpha.typ = 'pkg.Kind'\", \"observed\": \"None\"}"
 },
 {
  "id": "C02-class-typ-21",
  "property": "C02",
  "pattern": {
   "check": "format_roundtrip",
   "fmt": "class",
   "field": "typ",
   "expected": "list",
   "observed": "None",
   "entry": "param",
   "typ_class": "list",
   "default_kind": "code"
  },
  "what": "",
  "site": "",
  "example": "{\"input\": {\"params\": [[\"alpha\", {\"doc\": \"the value\", \"typ\": \"list\", \"default\": \"```[1, 2]```\"}]], \"returns\": None}, \"cfg\": {\"fmt\": \"class\", \"kw\": {}, \"style\": \"rest\", \"emit_default_doc\": False}, \"expected\": \"alpha.typ = 'list'\", \"observed\": \"None\"}"
 },
 {
  "id": "C02-pydantic-typ-22",
  "property": "C02",
  "pattern": {
   "check": "format_roundtrip",
   "fmt": "pydantic",
   "field": "typ",
   "expected": "list",
   "observed": "None",
   "entry": "param",
   "typ_class": "list",
   "default_kind": "code"
  },
  "what": "",
  "site": "",
  "example": "{\"input\": {\"params\": [[\"alpha\", {\"doc\": \"the value\", \"typ\": \"list\", \"default\": \"```[1, 2]```\"}]], \"returns\": None}, \"cfg\": {\"fmt\": \"pydantic\", \"kw\": {}, \"style\": \"rest\", \"emit_default_doc\": False}, \"expected\": \"alpha.typ = 'list'\", \"observed\": \"None\"}"
 },
 {
  "id": "C02-function-emit-23",
  "property": "C02",
  "pattern": {
   "check": "format_roundtrip",
   "fmt": "function",
   "field": "emit",
   "expected": "ok",
   "observed": "raises AttributeError",
   "ret": "default"
  },
  "what": "",
  "site": "",
  "example": "{\"input\": {\"params\": [[\"alpha\", {\"doc\": \"the value\", \"typ\": \"Optional[int]\"}]], \"returns\": {\"doc\": \"the result\", \"typ\": \"int\", \"default\": 7}}, \"cfg\": {\"fmt\": \"function\", \"kw\": {\"type_annotations\": True, \"emit_as_kwonlyargs\": False}, \"style\": \"rest\", \"emit_default_doc\": False}, \"expected\": \"hop completes\", \"observed\": \"emit: AttributeError: 'int' object has no attribute 'strip'\"}"
 },
 {
  "id": "C02-argparse-emit-24",
  "property": "C02",
  "pattern": {
   "check": "format_roundtrip",
   "fmt": "argparse",
   "field": "emit",
   "expected": "ok",
   "observed": "raises TypeError",
   "ret": "default"
  },
  "what": "",
  "site": "",
  "example": "{\"input\": {\"params\": [[\"alpha\", {\"doc\": \"the value\", \"typ\": \"Optional[int]\"}]], \"returns\": {\"doc\": \"the result\", \"typ\": \"int\", \"default\": 7}}, \"cfg\": {\"fmt\": \"argparse\", \"kw\": {}, \"style\": \"rest\", \"emit_default_doc\": False}, \"expected\": \"hop completes\", \"observed\": \"emit: TypeError: compile() arg 1 must be a string, bytes or AST object\"}"
 },
 {
  "id": "C02-function-typ-25",
  "property": "C02",
  "pattern": {
   "check": "format_roundtrip",
   "fmt": "function",
   "field": "typ",
   "expected": "float",
   "observed": "None",
   "style": "numpydoc",
   "type_annotations": False,
   "entry": "param",
   "typ_class": "float",
   "default_kind": "ABSENT"
  },
  "what": "",
  "site": "",
  "example": "{\"input\": {\"params\": [[\"alpha\", {\"doc\": \"the value\", \"typ\": \"float\"}]], \"returns\": None}, \"cfg\": {\"fmt\": \"function\", \"kw\": {\"type_annotations\": False, \"emit_as_kwonlyargs\": False}, \"style\": \"numpydoc\", \"emit_default_doc\": False}, \"expected\": \"alpha.typ = 'float'\", \"observed\": \"None\"}"
 },
 {
  "id": "C02-argparse-default-26",
  "property": "C02",
  "pattern": {
   "check": "format_roundtrip",
   "fmt": "argparse",
   "field": "default",
   "expected": "ABSENT",
   "observed": "float",
   "entry": "param",
   "typ_class": "float",
   "default_kind": "ABSENT"
  },
  "what": "",
  "site": "",
  "example": "{\"input\": {\"params\": [[\"alpha\", {\"doc\": \"the value\", \"typ\": \"float\"}]], \"returns\": None}, \"cfg\": {\"fmt\": \"argparse\", \"kw\": {}, \"style\": \"rest\", \"emit_default_doc\": False}, \"expected\": \"alpha.default = '<absent>'\", \"observed\": \"0.0\"}"
 },
 {
  "id": "C02-function-typ-27",
  "property": "C02",
  "pattern": {
   "check": "format_roundtrip",
   "fmt": "function",
   "field": "typ",
   "expected": "bool",
   "observed": "None",
   "style": "numpydoc",
   "type_annotations": False,
   "entry": "param",
   "typ_class": "bool",
   "default_kind": "ABSENT"
  },
  "what": "",
  "site": "",
  "example": "{\"input\": {\"params\": [[\"alpha\", {\"doc\": \"the value\", \"typ\": \"bool\"}]], \"returns\": None}, \"cfg\": {\"fmt\": \"function\", \"kw\": {\"type_annotations\": False, \"emit_as_kwonlyargs\": False}, \"style\": \"numpydoc\", \"emit_default_doc\": False}, \"expected\": \"alpha.typ = 'bool'\", \"observed\": \"None\"}"
 },
 {
  "id": "C02-argparse-typ-28",
  "property": "C02",
  "pattern": {
   "check": "format_roundtrip",
   "fmt": "argparse",
   "field": "typ",
   "expected": "bool",
   "observed": "Optional[bool]",
   "entry": "param",
   "typ_class": "bool",
   "default_kind": "ABSENT"
  },
  "what": "",
  "site": "",
  "example": "{\"input\": {\"params\": [[\"alpha\", {\"doc\": \"the value\", \"typ\": \"bool\"}]], \"returns\": None}, \"cfg\": {\"fmt\": \"argparse\", \"kw\": {}, \"style\": \"rest\", \"emit_default_doc\": False}, \"expected\": \"alpha.typ = 'bool'\", \"observed\": \"'Optional[bool]'\"}"
 },
 {
  "id": "C02-function-typ-29",
  "property": "C02",
  "pattern": {
   "check": "format_roundtrip",
   "fmt": "function",
   "field": "typ",
   "expected": "Optional[int]",
   "observed": "Optional[str]",
   "style": "rest",
   "type_annotations": True,
   "emit_default_doc": True,
   "entry": "param",
   "typ_class": "Optional",
   "default_kind": "None",
   "doc_kind": "all_doc"
  },
  "what": "",
  "site": "",
  "example": "{\"input\": {\"params\": [[\"alpha\", {\"doc\": \"the value\", \"typ\": \"Optional[int]\", \"default\": \"```(None)```\"}]], \"returns\": None}, \"cfg\": {\"fmt\": \"function\", \"kw\": {\"type_annotations\": True, \"emit_as_kwonlyargs\": False}, \"style\": \"rest\", \"emit_default_doc\": True}, \"expected\": \"alpha.typ = 'Optional[int]'\", \"observed\": \"'Optional[str]'\"}"
 },
 {
  "id": "C02-function-typ-30",
  "property": "C02",
  "pattern": {
   "check": "format_roundtrip",
   "fmt": "function",
   "field": "typ",
   "expected": "Optional[float]",
   "observed": "None",
   "style": "numpydoc",
   "type_annotations": False,
   "entry": "param",
   "typ_class": "Optional",
   "default_kind": {
    "in": [
     "ABSENT",
     "None"
    ]
   }
  },
  "what": "",
  "site": "",
  "example": "{\"input\": {\"params\": [[\"alpha\", {\"doc\": \"the value\", \"typ\": \"Optional[float]\"}]], \"returns\": None}, \"cfg\": {\"fmt\": \"function\", \"kw\": {\"type_annotations\": False, \"emit_as_kwonlyargs\": False}, \"style\": \"numpydoc\", \"emit_default_doc\": False}, \"expected\": \"alpha.typ = 'Optional[float]'\", \"observed\": \"None\"}"
 },
 {
  "id": "C02-function-typ-31",
  "property": "C02",
  "pattern": {
   "check": "format_roundtrip",
   "fmt": "function",
   "field": "typ",
   "expected": "Optional[float]",
   "observed": "Optional[str]",
   "style": "rest",
   "type_annotations": True,
   "emit_default_doc": True,
   "entry": "param",
   "typ_class": "Optional",
   "default_kind": "None",
   "doc_kind": "all_doc"
  },
  "what": "",
  "site": "",
  "example": "{\"input\": {\"params\": [[\"alpha\", {\"doc\": \"the value\", \"typ\": \"Optional[float]\", \"default\": \"```(None)```\"}]], \"returns\": None}, \"cfg\": {\"fmt\": \"function\", \"kw\": {\"type_annotations\": True, \"emit_as_kwonlyargs\": False}, \"style\": \"rest\", \"emit_default_doc\": True}, \"expected\": \"alpha.typ = 'Optional[float]'\", \"observed\": \"'Optional[str]'\"}"
 },
 {
  "id": "C02-function-typ-32",
  "property": "C02",
  "pattern": {
   "check": "format_roundtrip",
   "fmt": "function",
   "field": "typ",
   "expected": "Optional[bool]",
   "observed": "None",
   "style": "numpydoc",
   "type_annotations": False,
   "entry": "param",
   "typ_class": "Optional",
   "default_kind": {
    "in": [
     "ABSENT",
     "None"
    ]
   }
  },
  "what": "",
  "site": "",
  "example": "{\"input\": {\"params\": [[\"alpha\", {\"doc\": \"the value\", \"typ\": \"Optional[bool]\"}]], \"returns\": None}, \"cfg\": {\"fmt\": \"function\", \"kw\": {\"type_annotations\": False, \"emit_as_kwonlyargs\": False}, \"style\": \"numpydoc\", \"emit_default_doc\": False}, \"expected\": \"alpha.typ = 'Optional[bool]'\", \"observed\": \"None\"}"
 },
 {
  "id": "C02-function-typ-33",
  "property": "C02",
  "pattern": {
   "check": "format_roundtrip",
   "fmt": "function",
   "field": "typ",
   "expected": "Optional[bool]",
   "observed": "Optional[str]",
   "style": "rest",
   "type_annotations": True,
   "emit_default_doc": True,
   "entry": "param",
   "typ_class": "Optional",
   "default_kind": "None",
   "doc_kind": "all_doc"
  },
  "what": "",
  "site": "",
  "example": "{\"input\": {\"params\": [[\"alpha\", {\"doc\": \"the value\", \"typ\": \"Optional[bool]\", \"default\": \"```(None)```\"}]], \"returns\": None}, \"cfg\": {\"fmt\": \"function\", \"kw\": {\"type_annotations\": True, \"emit_as_kwonlyargs\": False}, \"style\": \"rest\", \"emit_default_doc\": True}, \"expected\": \"alpha.typ = 'Optional[bool]'\", \"observed\": \"'Optional[str]'\"}"
 },
 {
  "id": "C02-function-typ-34",
  "property": "C02",
  "pattern": {
   "check": "format_roundtrip",
   "fmt": "function",
   "field": "typ",
   "expected": "Literal['a', 'b']",
   "observed": "None",
   "style": "numpydoc",
   "type_annotations": False,
   "entry": "param",
   "typ_class": "Literal",
   "default_kind": "ABSENT"
  },
  "what": "",
  "site": "",
  "example": "{\"input\": {\"params\": [[\"alpha\", {\"doc\": \"the value\", \"typ\": \"Literal['a', 'b']\"}]], \"returns\": None}, \"cfg\": {\"fmt\": \"function\", \"kw\": {\"type_annotations\": False, \"emit_as_kwonlyargs\": False}, \"style\": \"numpydoc\", \"emit_default_doc\": False}, \"expected\": \"alpha.typ = \\\"Literal['a', 'b']\\\"\", \"observed\": \"None\"}"
 },
 {
  "id": "C02-function-typ-35",
  "property": "C02",
  "pattern": {
   "check": "format_roundtrip",
   "fmt": "function",
   "field": "typ",
   "expected": "Literal['a', 'b', 'c']",
   "observed": "None",
   "style": "numpydoc",
   "type_annotations": False,
   "entry": "param",
   "typ_class": "Literal",
   "default_kind": "ABSENT"
  },
  "what": "",
  "site": "",
  "example": "{\"input\": {\"params\": [[\"alpha\", {\"doc\": \"the value\", \"typ\": \"Literal['a', 'b', 'c']\"}]], \"returns\": None}, \"cfg\": {\"fmt\": \"function\", \"kw\": {\"type_annotations\": False, \"emit_as_kwonlyargs\": False}, \"style\": \"numpydoc\", \"emit_default_doc\": False}, \"expected\": \"alpha.typ = \\\"Literal['a', 'b', 'c']\\\"\", \"observed\": \"None\"}"
 },
 {
  "id": "C02-function-typ-36",
  "property": "C02",
  "pattern": {
   "check": "format_roundtrip",
   "fmt": "function",
   "field": "typ",
   "expected": "Literal['a', 'b', 'c']",
   "observed": "str",
   "style": "numpydoc",
   "type_annotations": False,
   "entry": "param",
   "typ_class": "Literal",
   "default_kind": "str"
  },
  "what": "",
  "site": "",
  "example": "{\"input\": {\"params\": [[\"alpha\", {\"doc\": \"the value\", \"typ\": \"Literal['a', 'b', 'c']\", \"default\": \"a\"}]], \"returns\": None}, \"cfg\": {\"fmt\": \"function\", \"kw\": {\"type_annotations\": False, \"emit_as_kwonlyargs\": False}, \"style\": \"numpydoc\", \"emit_default_doc\": False}, \"expected\": \"alpha.typ = \\\"Literal['a', 'b', 'c']\\\"\", \"observed\": \"'str'\"}"
 },
 {
  "id": "C02-argparse-typ-37",
  "property": "C02",
  "pattern": {
   "check": "format_roundtrip",
   "fmt": "argparse",
   "field": "typ",
   "expected": "List[str]",
   "observed": "List[Optional[dict]]",
   "entry": "param",
   "typ_class": "List",
   "default_kind": "code"
  },
  "what": "",
  "site": "",
  "example": "{\"input\": {\"params\": [[\"alpha\", {\"doc\": \"the value\", \"typ\": \"List[str]\", \"default\": \"```['a', 'b']```\"}]], \"returns\": None}, \"cfg\": {\"fmt\": \"argparse\", \"kw\": {}, \"style\": \"rest\", \"emit_default_doc\": False}, \"expected\": \"alpha.typ = 'List[str]'\", \"observed\": \"'List[Optional[dict]]'\"}"
 },
 {
  "id": "C02-function-typ-38",
  "property": "C02",
  "pattern": {
   "check": "format_roundtrip",
   "fmt": "function",
   "field": "typ",
   "expected": "List[int]",
   "observed": "None",
   "style": "numpydoc",
   "type_annotations": False,
   "entry": "param",
   "typ_class": "List",
   "default_kind": {
    "in": [
     "ABSENT",
     "code"
    ]
   }
  },
  "what": "",
  "site": "",
  "example": "{\"input\": {\"params\": [[\"alpha\", {\"doc\": \"the value\", \"typ\": \"List[int]\"}]], \"returns\": None}, \"cfg\": {\"fmt\": \"function\", \"kw\": {\"type_annotations\": False, \"emit_as_kwonlyargs\": False}, \"style\": \"numpydoc\", \"emit_default_doc\": False}, \"expected\": \"alpha.typ = 'List[int]'\", \"observed\": \"None\"}"
 },
 {
  "id": "C02-argparse-typ-39",
  "property": "C02",
  "pattern": {
   "check": "format_roundtrip",
   "fmt": "argparse",
   "field": "typ",
   "expected": "List[int]",
   "observed": "List[Optional[dict]]",
   "entry": "param",
   "typ_class": "List",
   "default_kind": "code"
  },
  "what": "",
  "site": "",
  "example": "{\"input\": {\"params\": [[\"alpha\", {\"doc\": \"the value\", \"typ\": \"List[int]\", \"default\": \"```[1, 2]```\"}]], \"returns\": None}, \"cfg\": {\"fmt\": \"argparse\", \"kw\": {}, \"style\": \"rest\", \"emit_default_doc\": False}, \"expected\": \"alpha.typ = 'List[int]'\", \"observed\": \"'List[Optional[dict]]'\"}"
 },
 {
  "id": "C02-function-typ-40",
  "property": "C02",
  "pattern": {
   "check": "format_roundtrip",
   "fmt": "function",
   "field": "typ",
   "expected": "Union[int, str]",
   "observed": "None",
   "style": "numpydoc",
   "type_annotations": False,
   "entry": "param",
   "typ_class": "Union",
   "default_kind": "ABSENT"
  },
  "what": "",
  "site": "",
  "example": "{\"input\": {\"params\": [[\"alpha\", {\"doc\": \"the value\", \"typ\": \"Union[int, str]\"}]], \"returns\": None}, \"cfg\": {\"fmt\": \"function\", \"kw\": {\"type_annotations\": False, \"emit_as_kwonlyargs\": False}, \"style\": \"numpydoc\", \"emit_default_doc\": False}, \"expected\": \"alpha.typ = 'Union[int, str]'\", \"observed\": \"None\"}"
 },
 {
  "id": "C02-argparse-typ-41",
  "property": "C02",
  "pattern": {
   "check": "format_roundtrip",
   "fmt": "argparse",
   "field": "typ",
   "expected": "Union[int, str]",
   "observed": "str",
   "entry": "param",
   "typ_class": "Union",
   "default_kind": "ABSENT"
  },
  "what": "",
  "site": "",
  "example": "{\"input\": {\"params\": [[\"alpha\", {\"doc\": \"the value\", \"typ\": \"Union[int, str]\"}]], \"returns\": None}, \"cfg\": {\"fmt\": \"argparse\", \"kw\": {}, \"style\": \"rest\", \"emit_default_doc\": False}, \"expected\": \"alpha.typ = 'Union[int, str]'\", \"observed\": \"'str'\"}"
 },
 {
  "id": "C02-function-default-42",
  "property": "C02",
  "pattern": {
   "check": "format_roundtrip",
   "fmt": "function",
   "field": "default",
   "expected": "negint",
   "observed": "str",
   "entry": "param",
   "typ_class": "Union",
   "default_kind": "negint"
  },
  "what": "",
  "site": "",
  "example": "{\"input\": {\"params\": [[\"alpha\", {\"doc\": \"the value\", \"typ\": \"Union[int, str]\", \"default\": -5}]], \"returns\": None}, \"cfg\": {\"fmt\": \"function\", \"kw\": {\"type_annotations\": True, \"emit_as_kwonlyargs\": False}, \"style\": \"rest\", \"emit_default_doc\": False}, \"expected\": \"alpha.default = -5\", \"observed\": \"'<ast UnaryOp(op=USub(), operand=Constant(value=5))>'\"}"
 },
 {
  "id": "C02-function-typ-43",
  "property": "C02",
  "pattern": {
   "check": "format_roundtrip",
   "fmt": "function",
   "field": "typ",
   "expected": "pkg.Kind",
   "observed": "None",
   "entry": "param",
   "typ_class": "dotted",
   "default_kind": {
    "in": [
     "ABSENT",
     "code"
    ]
   }
  },
  "what": "",
  "site": "",
  "example": "{\"input\": {\"params\": [[\"alpha\", {\"doc\": \"the value\", \"typ\": \"pkg.Kind\"}]], \"returns\": None}, \"cfg\": {\"fmt\": \"function\", \"kw\": {\"type_annotations\": False, \"emit_as_kwonlyargs\": False}, \"style\": \"numpydoc\", \"emit_default_doc\": False}, \"expected\": \"alpha.typ = 'pkg.Kind'\", \"observed\": \"None\"}"
 },
 {
  "id": "C02-argparse-typ-44",
  "property": "C02",
  "pattern": {
   "check": "format_roundtrip",
   "fmt": "argparse",
   "field": "typ",
   "expected": "pkg.Kind",
   "observed": "str",
   "entry": "param",
   "typ_class": "dotted",
   "default_kind": {
    "in": [
     "ABSENT",
     "code"
    ]
   }
  },
  "what": "",
  "site": "",
  "example": "{\"input\": {\"params\": [[\"alpha\", {\"doc\": \"the value\", \"typ\": \"pkg.Kind\"}]], \"returns\": None}, \"cfg\": {\"fmt\": \"argparse\", \"kw\": {}, \"style\": \"rest\", \"emit_default_doc\": False}, \"expected\": \"alpha.typ = 'pkg.Kind'\", \"observed\": \"'str'\"}"
 },
 {
  "id": "C02-argparse-default-45",
  "property": "C02",
  "pattern": {
   "check": "format_roundtrip",
   "fmt": "argparse",
   "field": "default",
   "expected": "code",
   "observed": "code",
   "entry": "param",
   "typ_class": "dotted",
   "default_kind": "code"
  },
  "what": "",
  "site": "",
  "example": "{\"input\": {\"params\": [[\"alpha\", {\"doc\": \"the value\", \"typ\": \"pkg.Kind\", \"default\": \"```pkg.Kind.A```\"}]], \"returns\": None}, \"cfg\": {\"fmt\": \"argparse\", \"kw\": {}, \"style\": \"rest\", \"emit_default_doc\": False}, \"expected\": \"alpha.default = '```pkg.Kind.A```'\", \"observed\": \"'```(pkg.Kind)```'\"}"
 },
 {
  "id": "C02-function-typ-46",
  "property": "C02",
  "pattern": {
   "check": "format_roundtrip",
   "fmt": "function",
   "field": "typ",
   "expected": "dict",
   "observed": "None",
   "entry": "param",
   "typ_class": "dict",
   "default_kind": {
    "in": [
     "ABSENT",
     "code"
    ]
   }
  },
  "what": "",
  "site": "",
  "example": "{\"input\": {\"params\": [[\"alpha\", {\"doc\": \"the value\", \"typ\": \"dict\"}]], \"returns\": None}, \"cfg\": {\"fmt\": \"function\", \"kw\": {\"type_annotations\": False, \"emit_as_kwonlyargs\": False}, \"style\": \"numpydoc\", \"emit_default_doc\": False}, \"expected\": \"alpha.typ = 'dict'\", \"observed\": \"None\"}"
 },
 {
  "id": "C02-argparse-typ-47",
  "property": "C02",
  "pattern": {
   "check": "format_roundtrip",
   "fmt": "argparse",
   "field": "typ",
   "expected": "dict",
   "observed": "Optional[dict]",
   "entry": "param",
   "typ_class": "dict",
   "default_kind": {
    "in": [
     "ABSENT",
     "code"
    ]
   }
  },
  "what": "",
  "site": "",
  "example": "{\"input\": {\"params\": [[\"alpha\", {\"doc\": \"the value\", \"typ\": \"dict\"}]], \"returns\": None}, \"cfg\": {\"fmt\": \"argparse\", \"kw\": {}, \"style\": \"rest\", \"emit_default_doc\": False}, \"expected\": \"alpha.typ = 'dict'\", \"observed\": \"'Optional[dict]'\"}"
 },
 {
  "id": "C02-argparse-default-48",
  "property": "C02",
  "pattern": {
   "check": "format_roundtrip",
   "fmt": "argparse",
   "field": "default",
   "expected": "ABSENT",
   "observed": "None",
   "entry": "param",
   "typ_class": "dict",
   "default_kind": "ABSENT"
  },
  "what": "",
  "site": "",
  "example": "{\"input\": {\"params\": [[\"alpha\", {\"doc\": \"the value\", \"typ\": \"dict\"}]], \"returns\": None}, \"cfg\": {\"fmt\": \"argparse\", \"kw\": {}, \"style\": \"rest\", \"emit_default_doc\": False}, \"expected\": \"alpha.default = '<absent>'\", \"observed\": \"'```(None)```'\"}"
 },
 {
  "id": "C02-function-typ-49",
  "property": "C02",
  "pattern": {
   "check": "format_roundtrip",
   "fmt": "function",
   "field": "typ",
   "expected": "list",
   "observed": "None",
   "entry": "param",
   "typ_class": "list",
   "default_kind": {
    "in": [
     "ABSENT",
     "code"
    ]
   }
  },
  "what": "",
  "site": "",
  "example": "{\"input\": {\"params\": [[\"alpha\", {\"doc\": \"the value\", \"typ\": \"list\"}]], \"returns\": None}, \"cfg\": {\"fmt\": \"function\", \"kw\": {\"type_annotations\": False, \"emit_as_kwonlyargs\": False}, \"style\": \"numpydoc\", \"emit_default_doc\": False}, \"expected\": \"alpha.typ = 'list'\", \"observed\": \"None\"}"
 },
 {
  "id": "C02-argparse-typ-50",
  "property": "C02",
  "pattern": {
   "check": "format_roundtrip",
   "fmt": "argparse",
   "field": "typ",
   "expected": "list",
   "observed": "str",
   "entry": "param",
   "typ_class": "list",
   "default_kind": "ABSENT"
  },
  "what": "",
  "site": "",
  "example": "{\"input\": {\"params\": [[\"alpha\", {\"doc\": \"the value\", \"typ\": \"list\"}]], \"returns\": None}, \"cfg\": {\"fmt\": \"argparse\", \"kw\": {}, \"style\": \"rest\", \"emit_default_doc\": False}, \"expected\": \"alpha.typ = 'list'\", \"observed\": \"'str'\"}"
 },
 {
  "id": "C02-argparse-typ-51",
  "property": "C02",
  "pattern": {
   "check": "format_roundtrip",
   "fmt": "argparse",
   "field": "typ",
   "expected": "list",
   "observed": "Optional[dict]",
   "entry": "param",
   "typ_class": "list",
   "default_kind": "code"
  },
  "what": "",
  "site": "",
  "example": "{\"input\": {\"params\": [[\"alpha\", {\"doc\": \"the value\", \"typ\": \"list\", \"default\": \"```[1, 2]```\"}]], \"returns\": None}, \"cfg\": {\"fmt\": \"argparse\", \"kw\": {}, \"style\": \"rest\", \"emit_default_doc\": False}, \"expected\": \"alpha.typ = 'list'\", \"observed\": \"'Optional[dict]'\"}"
 },
 {
  "id": "C02-function-parse-52",
  "property": "C02",
  "pattern": {
   "check": "format_roundtrip",
   "fmt": "function",
   "field": "parse",
   "expected": "ok",
   "observed": "raises ValueError",
   "style": "rest",
   "type_annotations": True,
   "emit_default_doc": True,
   "doc_kind": "all_doc",
   "ret": {
    "in": [
     "none",
     "plain"
    ]
   },
   "typ_classes": "dotted",
   "default_kinds": "code"
  },
  "what": "",
  "site": "",
  "example": "{\"input\": {\"params\": [[\"alpha\", {\"doc\": \"the value\", \"typ\": \"pkg.Kind\", \"default\": \"```pkg.Kind.A```\"}]], \"returns\": {\"doc\": \"the result\", \"typ\": \"int\"}}, \"cfg\": {\"fmt\": \"function\", \"kw\": {\"type_annotations\": True, \"emit_as_kwonlyargs\": False}, \"style\": \"rest\", \"emit_default_doc\": True}, \"expected\": \"hop completes\", \"observed\": \"parse: ValueError: malformed node or string on line 1: <ast.Name object at 0x7f80c58467d0>\"}"
 },
 {
  "id": "C02-class-parse-53",
  "property": "C02",
  "pattern": {
   "check": "format_roundtrip",
   "fmt": "class",
   "field": "parse",
   "expected": "ok",
   "observed": "raises TypeError",
   "typ_classes": "dict",
   "default_kinds": {
    "in": [
     "ABSENT",
     "code"
    ]
   }
  },
  "what": "",
  "site": "",
  "example": "{\"input\": {\"params\": [[\"alpha\", {\"doc\": \"the value\", \"typ\": \"dict\"}]], \"returns\": {\"doc\": \"the result\", \"typ\": \"int\"}}, \"cfg\": {\"fmt\": \"class\", \"kw\": {}, \"style\": \"rest\", \"emit_default_doc\": False}, \"expected\": \"hop completes\", \"observed\": \"parse: TypeError: unhashable type: 'dict'\"}"
 },
 {
  "id": "C02-pydantic-parse-54",
  "property": "C02",
  "pattern": {
   "check": "format_roundtrip",
   "fmt": "pydantic",
   "field": "parse",
   "expected": "ok",
   "observed": "raises TypeError",
   "typ_classes": "dict",
   "default_kinds": {
    "in": [
     "ABSENT",
     "code"
    ]
   }
  },
  "what": "",
  "site": "",
  "example": "{\"input\": {\"params\": [[\"alpha\", {\"doc\": \"the value\", \"typ\": \"dict\"}]], \"returns\": {\"doc\": \"the result\", \"typ\": \"int\"}}, \"cfg\": {\"fmt\": \"pydantic\", \"kw\": {}, \"style\": \"rest\", \"emit_default_doc\": False}, \"expected\": \"hop completes\", \"observed\": \"parse: TypeError: unhashable type: 'dict'\"}"
 },
 {
  "id": "C02-function-doc-55",
  "property": "C02",
  "pattern": {
   "check": "format_roundtrip",
   "fmt": "function",
   "field": "doc",
   "expected": "doc",
   "observed": "prefix_added",
   "style": "google",
   "entry": "return",
   "typ_class": {
    "in": [
     "int",
     "str"
    ]
   },
   "default_kind": "ABSENT"
  },
  "what": "",
  "site": "",
  "example": "{\"input\": {\"params\": [[\"alpha\", {\"doc\": \"the value\", \"typ\": \"int\", \"default\": 5}]], \"returns\": {\"doc\": \"the result\", \"typ\": \"int\"}}, \"cfg\": {\"fmt\": \"function\", \"kw\": {\"type_annotations\": True, \"emit_as_kwonlyargs\": False}, \"style\": \"google\", \"emit_default_doc\": False}, \"expected\": \"return_type.doc = 'the result'\", \"observed\": \"'int: the result'\"}"
 },
 {
  "id": "C02-function-doc-56",
  "property": "C02",
  "pattern": {
   "check": "format_roundtrip",
   "fmt": "function",
   "field": "doc",
   "expected": "doc",
   "observed": "lost",
   "style": "numpydoc"
  },
  "what": "",
  "site": "",
  "example": "{\"input\": {\"params\": [[\"alpha\", {\"doc\": \"the value\", \"typ\": \"int\", \"default\": 5}]], \"returns\": {\"doc\": \"the result\", \"typ\": \"int\"}}, \"cfg\": {\"fmt\": \"function\", \"kw\": {\"type_annotations\": True, \"emit_as_kwonlyargs\": False}, \"style\": \"numpydoc\", \"emit_default_doc\": False}, \"expected\": \"return_type.doc = 'the result'\", \"observed\": \"''\"}"
 },
 {
  "id": "C02-class-doc-57",
  "property": "C02",
  "pattern": {
   "check": "format_roundtrip",
   "fmt": "class",
   "field": "doc",
   "expected": "doc",
   "observed": "lost",
   "style": "google",
   "entry": "return",
   "typ_class": {
    "in": [
     "int",
     "str"
    ]
   },
   "default_kind": {
    "in": [
     "ABSENT",
     "int"
    ]
   }
  },
  "what": "",
  "site": "",
  "example": "{\"input\": {\"params\": [[\"alpha\", {\"doc\": \"the value\", \"typ\": \"int\", \"default\": 5}]], \"returns\": {\"doc\": \"the result\", \"typ\": \"int\"}}, \"cfg\": {\"fmt\": \"class\", \"kw\": {}, \"style\": \"google\", \"emit_default_doc\": False}, \"expected\": \"return_type.doc = 'the result'\", \"observed\": \"''\"}"
 },
 {
  "id": "C02-class-doc-58",
  "property": "C02",
  "pattern": {
   "check": "format_roundtrip",
   "fmt": "class",
   "field": "doc",
   "expected": "doc",
   "observed": "lost",
   "style": "numpydoc"
  },
  "what": "",
  "site": "",
  "example": "{\"input\": {\"params\": [[\"alpha\", {\"doc\": \"the value\", \"typ\": \"int\", \"default\": 5}]], \"returns\": {\"doc\": \"the result\", \"typ\": \"int\"}}, \"cfg\": {\"fmt\": \"class\", \"kw\": {}, \"style\": \"numpydoc\", \"emit_default_doc\": False}, \"expected\": \"return_type.doc = 'the result'\", \"observed\": \"''\"}"
 },
 {
  "id": "C02-pydantic-doc-59",
  "property": "C02",
  "pattern": {
   "check": "format_roundtrip",
   "fmt": "pydantic",
   "field": "doc",
   "expected": "doc",
   "observed": "lost",
   "style": "google",
   "entry": "return",
   "typ_class": {
    "in": [
     "int",
     "str"
    ]
   },
   "default_kind": {
    "in": [
     "ABSENT",
     "int"
    ]
   }
  },
  "what": "",
  "site": "",
  "example": "{\"input\": {\"params\": [[\"alpha\", {\"doc\": \"the value\", \"typ\": \"int\", \"default\": 5}]], \"returns\": {\"doc\": \"the result\", \"typ\": \"int\"}}, \"cfg\": {\"fmt\": \"pydantic\", \"kw\": {}, \"style\": \"google\", \"emit_default_doc\": False}, \"expected\": \"return_type.doc = 'the result'\", \"observed\": \"''\"}"
 },
 {
  "id": "C02-pydantic-doc-60",
  "property": "C02",
  "pattern": {
   "check": "format_roundtrip",
   "fmt": "pydantic",
   "field": "doc",
   "expected": "doc",
   "observed": "lost",
   "style": "numpydoc"
  },
  "what": "",
  "site": "",
  "example": "{\"input\": {\"params\": [[\"alpha\", {\"doc\": \"the value\", \"typ\": \"int\", \"default\": 5}]], \"returns\": {\"doc\": \"the result\", \"typ\": \"int\"}}, \"cfg\": {\"fmt\": \"pydantic\", \"kw\": {}, \"style\": \"numpydoc\", \"emit_default_doc\": False}, \"expected\": \"return_type.doc = 'the result'\", \"observed\": \"''\"}"
 },
 {
  "id": "C02-class-doc-61",
  "property": "C02",
  "pattern": {
   "check": "format_roundtrip",
   "fmt": "class",
   "field": "doc",
   "expected": "doc",
   "observed": "suffix_added",
   "style": "rest",
   "emit_default_doc": True,
   "entry": "param",
   "typ_class": {
    "in": [
     "Optional",
     "dotted",
     "str"
    ]
   },
   "default_kind": {
    "in": [
     "code",
     "emptystr"
    ]
   },
   "doc_kind": "all_doc"
  },
  "what": "",
  "site": "",
  "example": "{\"input\": {\"params\": [[\"alpha\", {\"doc\": \"the value\", \"typ\": \"str\", \"default\": \"\"}]], \"returns\": None}, \"cfg\": {\"fmt\": \"class\", \"kw\": {}, \"style\": \"rest\", \"emit_default_doc\": True}, \"expected\": \"alpha.doc = 'the value'\", \"observed\": \"'the value. Defaults to'\"}"
 },
 {
  "id": "C02-class-doc-62",
  "property": "C02",
  "pattern": {
   "check": "format_roundtrip",
   "fmt": "class",
   "field": "doc",
   "expected": "doc",
   "observed": "suffix_added",
   "style": "google",
   "emit_default_doc": True,
   "entry": "param",
   "typ_class": {
    "in": [
     "Optional",
     "dotted",
     "str"
    ]
   },
   "default_kind": {
    "in": [
     "code",
     "emptystr"
    ]
   },
   "doc_kind": "all_doc"
  },
  "what": "",
  "site": "",
  "example": "{\"input\": {\"params\": [[\"alpha\", {\"doc\": \"the value\", \"typ\": \"str\", \"default\": \"\"}]], \"returns\": None}, \"cfg\": {\"fmt\": \"class\", \"kw\": {}, \"style\": \"google\", \"emit_default_doc\": True}, \"expected\": \"alpha.doc = 'the value'\", \"observed\": \"'the value. Defaults to'\"}"
 },
 {
  "id": "C02-pydantic-doc-63",
  "property": "C02",
  "pattern": {
   "check": "format_roundtrip",
   "fmt": "pydantic",
   "field": "doc",
   "expected": "doc",
   "observed": "suffix_added",
   "style": "rest",
   "emit_default_doc": True,
   "entry": "param",
   "typ_class": {
    "in": [
     "Optional",
     "dotted",
     "str"
    ]
   },
   "default_kind": {
    "in": [
     "code",
     "emptystr"
    ]
   },
   "doc_kind": "all_doc"
  },
  "what": "",
  "site": "",
  "example": "{\"input\": {\"params\": [[\"alpha\", {\"doc\": \"the value\", \"typ\": \"str\", \"default\": \"\"}]], \"returns\": None}, \"cfg\": {\"fmt\": \"pydantic\", \"kw\": {}, \"style\": \"rest\", \"emit_default_doc\": True}, \"expected\": \"alpha.doc = 'the value'\", \"observed\": \"'the value. Defaults to'\"}"
 },
 {
  "id": "C02-pydantic-doc-64",
  "property": "C02",
  "pattern": {
   "check": "format_roundtrip",
   "fmt": "pydantic",
   "field": "doc",
   "expected": "doc",
   "observed": "suffix_added",
   "style": "google",
   "emit_default_doc": True,
   "entry": "param",
   "typ_class": {
    "in": [
     "Optional",
     "dotted",
     "str"
    ]
   },
   "default_kind": {
    "in": [
     "code",
     "emptystr"
    ]
   },
   "doc_kind": "all_doc"
  },
  "what": "",
  "site": "",
  "example": "{\"input\": {\"params\": [[\"alpha\", {\"doc\": \"the value\", \"typ\": \"str\", \"default\": \"\"}]], \"returns\": None}, \"cfg\": {\"fmt\": \"pydantic\", \"kw\": {}, \"style\": \"google\", \"emit_default_doc\": True}, \"expected\": \"alpha.doc = 'the value'\", \"observed\": \"'the value. Defaults to'\"}"
 },
 {
  "id": "C02-function-doc-65",
  "property": "C02",
  "pattern": {
   "check": "format_roundtrip",
   "fmt": "function",
   "field": "doc",
   "expected": "doc",
   "observed": "suffix_added",
   "style": "rest",
   "emit_default_doc": True,
   "entry": "param",
   "typ_class": {
    "in": [
     "Optional",
     "str"
    ]
   },
   "default_kind": "emptystr",
   "doc_kind": "all_doc"
  },
  "what": "",
  "site": "",
  "example": "{\"input\": {\"params\": [[\"alpha\", {\"doc\": \"the value\", \"typ\": \"str\", \"default\": \"\"}]], \"returns\": None}, \"cfg\": {\"fmt\": \"function\", \"kw\": {\"type_annotations\": True, \"emit_as_kwonlyargs\": False}, \"style\": \"rest\", \"emit_default_doc\": True}, \"expected\": \"alpha.doc = 'the value'\", \"observed\": \"'the value. Defaults to'\"}"
 },
 {
  "id": "C02-function-doc-66",
  "property": "C02",
  "pattern": {
   "check": "format_roundtrip",
   "fmt": "function",
   "field": "doc",
   "expected": "doc",
   "observed": "suffix_added",
   "style": "google",
   "emit_default_doc": True,
   "entry": "param",
   "typ_class": {
    "in": [
     "Optional",
     "str"
    ]
   },
   "default_kind": "emptystr",
   "doc_kind": "all_doc"
  },
  "what": "",
  "site": "",
  "example": "{\"input\": {\"params\": [[\"alpha\", {\"doc\": \"the value\", \"typ\": \"str\", \"default\": \"\"}]], \"returns\": None}, \"cfg\": {\"fmt\": \"function\", \"kw\": {\"type_annotations\": True, \"emit_as_kwonlyargs\": False}, \"style\": \"google\", \"emit_default_doc\": True}, \"expected\": \"alpha.doc = 'the value'\", \"observed\": \"'the value. Defaults to'\"}"
 }
]

ROOTS = [
    # (predicate, root cause id, what, site)
    (lambda p: p["field"] == "emit" and p.get("ret") == "default" and p["fmt"] == "function", "R-ret-default-function",
     "function.emit raises AttributeError when the return entry has a non-string default (default.strip on an int)", "cdd/function/emit.py:function (return default handling)"),
    (lambda p: p["field"] == "emit" and p.get("ret") == "default" and p["fmt"] == "argparse", "R-ret-default-argparse",
     "argparse emit raises TypeError (compile() of a non-string) when the return entry has a non-string default", "cdd/argparse_function/emit.py:argparse_function (return statement from default)"),
    (lambda p: p["fmt"] in ("class", "pydantic") and p["field"] == "parse", "R-class-dict-unhashable",
     "class parser raises TypeError: unhashable type 'dict' on an attribute annotated dict whose value is {} (emitted for every dict parameter)", "cdd/class_/parse.py:class_ (default membership test against a set)"),
    (lambda p: p["fmt"] in ("class", "pydantic") and p["field"] == "doc" and p["observed"] == "lost" and p.get("style") == "numpydoc", "R-numpydoc-no-names",
     "class docstrings in NumPy style are emitted without parameter names (types live in annotations), so no description can be read back", "cdd/shared/docstring_utils.py:emit_param_str (numpydoc branch) - same root cause as C01-numpydoc-without-types-drops-names"),
    (lambda p: p["fmt"] in ("class", "pydantic") and p["field"] == "doc" and p["observed"] == "lost" and p.get("style") == "google", "R-class-google-return",
     "a return entry is emitted as class attribute return_type; in Google style its documentation is written under Args: as 'int:' and is lost", "cdd/class_/emit.py:class_ (returns merged into params) / emit_param_str google branch for return_type"),
    (lambda p: p["fmt"] in ("class", "pydantic") and p["field"] == "typ", "R-class-code-default-type",
     "class attribute with dotted/list type and a code-quoted default: the default is emitted as a back-ticked string constant and the annotation is dropped on re-parse", "cdd/shared/ast_utils.py:_generic_param2ast / cdd/class_/parse.py"),
    (lambda p: p["field"] == "doc" and p["observed"] == "suffix_added", "R-empty-or-code-default-prose",
     "a dangling 'Defaults to' (empty-string or code default) stays in the description - as C01-empty-string-default-leaves-prose", "cdd/shared/defaults_utils.py:set_default_doc/extract_default"),
    (lambda p: p["fmt"] == "function" and p["field"] == "doc" and p["observed"] == "lost", "R-numpydoc-no-names",
     "function docstrings in NumPy style with type annotations are emitted without parameter names", "cdd/shared/docstring_utils.py:emit_param_str (numpydoc branch)"),
    (lambda p: p["fmt"] == "function" and p.get("style") == "numpydoc" and p.get("type_annotations") is False, "R-indented-numpydoc-unparsed",
     "an indented NumPy docstring (as found in any real function body) is not parsed by function.parse: types, descriptions and the return entry are lost, types are then re-inferred from defaults", "cdd/function/parse.py:function (get_docstring(clean=parse_original_whitespace) hands the indented text to the NumPy scanner)"),
    (lambda p: p["fmt"] == "function" and p.get("style") in ("google", {"in": ["google", "numpydoc"]}) or (p["fmt"] == "function" and p["field"] == "doc" and p["observed"] == "prefix_added"), "R-indented-google-return",
     "indented Google docstring: the return type line 'int:' is folded into the return description and untyped entries lose their type", "cdd/function/parse.py / cdd/shared/docstring_parsers.py:_scan_phase_numpydoc_and_google"),
    (lambda p: p["fmt"] == "function" and p["field"] == "default" and p["expected"] in ("None", "code"), "R-default-quotes",
     "with emit_default_doc the prose default wins over the signature default and loses its code quotes - as C01-none-default-comes-back-as-string / C01-code-default-loses-quotes", "cdd/shared/defaults_utils.py:extract_default"),
    (lambda p: p["fmt"] == "function" and p["field"] == "typ" and p["observed"] == "Optional[str]", "R-default-quotes",
     "consequence of the de-quoted None default: the type is rewritten to Optional[str]", "cdd/shared/docstring_parsers.py:_set_name_and_type"),
    (lambda p: p["fmt"] == "function" and p["field"] == "default" and p["expected"] == "negint", "R-unaryop-default",
     "a negative default under a str-containing type (Union[int, str]) stays an ast.UnaryOp object in the parsed interface", "cdd/function/parse.py:function / cdd/shared/ast_utils.py:func_arg2param (get_value of UnaryOp)"),
    (lambda p: p["fmt"] == "function" and p["field"] == "typ", "R-function-code-default-type",
     "function parameter with dict/list/dotted type: the annotation is dropped on parse when the default is absent or code-quoted", "cdd/shared/ast_utils.py:func_arg2param / cdd/function/parse.py"),
    (lambda p: p["fmt"] == "function" and p["field"] == "parse", "R-dotted-code-default-parse",
     "as C01-dotted-code-default-parse-raises, reached through function.parse", "cdd/shared/docstring_parsers.py:_infer_default"),
    (lambda p: p["fmt"] == "argparse" and p["field"] == "default" and p["expected"] == "ABSENT", "R-argparse-zero-default",
     "argparse: a parameter without default is read back with the zero value of its type (0, 0.0, '', None)", "cdd/argparse_function/utils/emit_utils.py:parse_out_param / cdd/shared/ast_utils.py:infer_type_and_default"),
    (lambda p: p["fmt"] == "argparse" and p["field"] == "default" and p["expected"] == "None", "R-argparse-none-default",
     "argparse: a None default is not emitted and is absent after the round trip", "cdd/shared/ast_utils.py:param2argparse_param"),
    (lambda p: p["fmt"] == "argparse" and p["field"] == "default", "R-argparse-code-default",
     "argparse: a code-quoted default is emitted as a string (json-dumped or wrapped) and comes back as a different value", "cdd/shared/ast_utils.py:param2argparse_param/_resolve_arg"),
    (lambda p: p["fmt"] == "argparse" and p["field"] == "typ", "R-argparse-type-lossy",
     "argparse: add_argument(type=...) cannot carry Union/List/dict/bool/dotted types; they come back narrowed, widened to Optional or as str", "cdd/shared/ast_utils.py:param2argparse_param / cdd/argparse_function/utils/emit_utils.py:parse_out_param"),
]


def _build():
    out = []
    for f in RAW:
        p = f["pattern"]
        for pred, root, what, site in ROOTS:
            try:
                hit = pred(p)
            except Exception:
                hit = False
            if hit:
                f = dict(f, what="[%s] %s" % (root, what), site=site)
                break
        else:
            raise AssertionError("no root cause for %r" % (p,))
        p = f["pattern"]
        if p.get("field") == "parse":
            # whole-hop failures are keyed on the feature that causes them, not on the exact list of parameter classes
            p = {k: v for k, v in p.items() if k not in ("typ_classes", "default_kinds", "ret", "doc_kind", "style", "type_annotations", "emit_default_doc")}
            if p["fmt"] in ("class", "pydantic"):
                p["has_dict_param"] = True
            else:
                p["dotted_code_default"] = True
                p["emit_default_doc"] = True
            f = dict(f, pattern=p)
        out.append(f)
    # the indented-NumPy root cause does not depend on which type was written: one pattern per observed kind instead of one per type string
    gen, rest = {}, []
    for f in out:
        p = f["pattern"]
        if "R-indented-numpydoc-unparsed" in f["what"] and p.get("field") == "typ":
            q = dict(check=p["check"], fmt="function", style="numpydoc", type_annotations=False, field="typ", observed=p["observed"])
            gen.setdefault(p["observed"], dict(f, id="C02-function-numpydoc-typ-%s" % p["observed"].lower(), pattern=q))
        else:
            rest.append(f)
    out = rest + list(gen.values())
    out.append(dict(
        id="C02-string-default-cut-at-full-stop", property="C02",
        pattern=dict(check="format_roundtrip", dot_in_default=True, emit_default_doc=True, field={"in": ["parse", "default", "doc"]},
                     observed={"in": ["raises SyntaxError", "str", "suffix_added"]}),
        what="[R-default-cut-at-dot] as C01-string-default-cut-at-full-stop: with emit_default_doc the prose default is read back, cut at the first '.' ('a.b' -> '\"a', rest left in the "
             "description), or the parser raises SyntaxError on the unterminated string",
        site="cdd/shared/defaults_utils.py:extract_default",
        example="{'alpha': {'typ': 'str', 'doc': 'the value', 'default': 'a.b'}} through class/pydantic/function with emit_default_doc=True"))
    out.append(dict(
        id="C02-double-quote-in-string-default-not-escaped", property="C02",
        pattern=dict(check="format_roundtrip", quote_in_default=True, emit_default_doc=True, field="parse", observed="raises SyntaxError"),
        what="[R-default-quote] as C01-double-quote-in-string-default-not-escaped: the prose default \"say \"hi\"\" makes the parser raise SyntaxError (class/pydantic/function with emit_default_doc)",
        site="cdd/shared/pure_utils.py:quote / cdd/shared/defaults_utils.py", example="{'alpha': {'typ': 'str', 'default': 'say \"hi\"'}} with emit_default_doc=True"))
    out.append(dict(
        id="C02-argparse-numeric-literal-zero-default", property="C02",
        pattern=dict(check="format_roundtrip", fmt="argparse", entry="param", typ_class="Literal", default_kind="ABSENT", field="default", expected="ABSENT", observed="int"),
        what="[R-argparse-zero-default] argparse: a default-less parameter typed Literal[1, 2] (emitted with type=int) is read back with the invented zero default 0 - which is not even a member",
        site="cdd/argparse_function/utils/emit_utils.py:parse_out_param / cdd/shared/ast_utils.py:infer_type_and_default",
        example="{'alpha': {'typ': 'Literal[1, 2]', 'doc': 'the value'}} through argparse"))
    out.append(dict(
        id="C02-partial-doc-none-default-dequoted", property="C02",
        pattern=dict(check="format_roundtrip", fmt="function", emit_default_doc=True, doc_kind="some_nodoc", entry="param", field="default", expected="None", observed="str", typ_class="Optional"),
        what="[R-default-quotes] the de-quoted None default (prose default wins over the signature default), seen in partially documented functions",
        site="cdd/shared/defaults_utils.py:extract_default / cdd/shared/parse/utils/parser_utils.py:merge_present_params",
        example="def fn(alpha: int=5, beta: Optional[str]=None) documenting only beta ('Defaults to ```(None)```') -> beta.default == '(None)'"))
    out.append(dict(
        id="C02-partial-doc-undocumented-default-replaced-by-zero", property="C02",
        pattern=dict(check="format_roundtrip", fmt="function", style="google", emit_default_doc=True, doc_kind="some_nodoc", entry="param", field="default", expected="int", observed="int", earlier_default=True),
        what="Google style writes an entry with an empty description ('beta (int): ') for an undocumented parameter; read back, the parser invents the zero value for it because an earlier "
             "parameter has a default, and that invented 0 replaces the signature's own default 5 (merge_present_params lets the docstring-derived default win; making the signature win "
             "breaks three in-memory parse tests)",
        site="cdd/shared/docstring_parsers.py (Google: invented defaults after the first defaulted parameter) / cdd/shared/parse/utils/parser_utils.py:merge_present_params",
        example="def fn(alpha: int=5, beta: int=5) documenting only alpha, Google style, emit_default_doc=True -> beta.default == 0"))
    NESTED = ['Optional[List[Optional[int]]]', 'Dict[str, List[int]]', 'Union[int, str, float]', 'Optional[Union[float, str]]']
    out.append(dict(
        id="C02-argparse-nested-type-lossy", property="C02",
        pattern=dict(check="format_roundtrip", fmt="argparse", entry="param", field="typ", expected={"in": NESTED}),
        what="[R-argparse-type-lossy] argparse: nested types (Optional[List[Optional[int]]], Dict[str, List[int]], Union of three) come back narrowed to their innermost list/scalar or widened to Optional[dict]",
        site="cdd/shared/ast_utils.py:param2argparse_param / cdd/argparse_function/utils/emit_utils.py:parse_out_param", example="{'alpha': {'typ': 'Dict[str, List[int]]', 'doc': 'the value'}} through argparse -> typ 'List[int]'"))
    out.append(dict(
        id="C02-argparse-nested-type-default", property="C02",
        pattern=dict(check="format_roundtrip", fmt="argparse", entry="param", field="default", typ_class={"in": ["Optional", "other", "Union"]}, expected={"in": ["code", "ABSENT"]}, observed={"in": ["str", "int", "float"]}),
        what="[R-argparse-zero-default / R-argparse-code-default] the same two argparse losses for parameters of nested type: invented zero default, code default re-quoted as a string",
        site="cdd/argparse_function/utils/emit_utils.py:parse_out_param / cdd/shared/ast_utils.py:param2argparse_param", example="{'alpha': {'typ': 'Union[int, str, float]', 'doc': 'the value'}} through argparse -> default 0.0"))
    out.append(dict(
        id="C02-function-nested-type-code-default-dequoted", property="C02",
        pattern=dict(check="format_roundtrip", fmt="function", entry="param", field={"in": ["default", "typ"]}, typ_class={"in": ["Optional", "other"]}, default_kind={"in": ["code", "None"]},
                     expected={"in": ["code", "Optional[List[Optional[int]]]", "Optional[Union[float, str]]", "Optional[List[str]]", "Optional[List[float]]"]}, observed={"in": ["str", "Optional[str]"]}),
        what="[R-default-quotes] with emit_default_doc the prose default of a nested-type parameter wins over the signature default and loses its code quotes; the type is then rewritten from the de-quoted text",
        site="cdd/shared/defaults_utils.py:extract_default / cdd/shared/docstring_parsers.py:_set_name_and_type", example="{'alpha': {'typ': 'Dict[str, List[int]]', 'default': \"```{'k': [1, 2]}```\"}} through function with emit_default_doc=True"))
    out.append(dict(
        id="C02-int-default-narrows-declared-float", property="C02",
        pattern=dict(check="format_roundtrip", fmt={"in": ["argparse", "function"]}, entry="param", field="typ", expected={"in": ["float", "Optional[float]"]}, observed={"in": ["int", "Optional[int]"]}, default_kind="int"),
        what="a parameter declared float whose default is written as an int (momentum: float = 2): the argparse emitter derives type=int from the default, and with emit_default_doc the function parser "
             "re-infers the type from the prose default; the declared float comes back as int",
        site="cdd/shared/ast_utils.py:infer_type_and_default / cdd/shared/docstring_parsers.py:_infer_default", example="{'alpha': {'typ': 'float', 'doc': 'the value', 'default': 2}} through argparse -> typ 'int'"))
    out.append(dict(
        id="C02-google-multiline-description-truncated", property="C02",
        pattern=dict(check="format_roundtrip", style="google", multiline_doc=True, field="doc", observed="truncated"),
        what="[R-google-continuation-unindented] as C01-google-multiline-description-continuation-unindented: in Google style only the first line of a multi-line description comes back",
        site="cdd/shared/docstring_utils.py:emit_param_str (google branch)", example="{'alpha': {'typ': 'int', 'doc': 'the value\\nsecond line of it'}} through class/function with docstring_format='google'"))
    return out


FINDINGS = _build()
FIXED = [
    'fixed: property=C02 7d1086f class/pydantic/function: a partially documented interface came back with the documented parameters first (order changed); found when partially documented pairs/triples joined the C02 space',
    "fixed: property=C02 f4150fc class/function with docstring_format='google': only the first line of a multi-line description came back",
    'fixed: property=C02 fc46805 class/pydantic/function with emit_default_doc: string default with a full stop cut at the dot or SyntaxError',
    'fixed: property=C02 26237d2 class/pydantic/function with emit_default_doc: string default with a double quote raised SyntaxError on parse',
    "fixed: property=C02 57d6e6f argparse: parsing add_argument(type=int, choices=(1, 2), default=2) raised TypeError (', '.join over ints); Literal[1, 2] with a default could not make the round trip",
    "fixed: property=C02 efa4dbd function with emit_default_doc: empty-string default left a dangling 'Defaults to' in the description",
]

# patterns of defects that have since been repaired in the repository (see FIXED): no longer known findings
FIXED_IDS = ['C02-double-quote-in-string-default-not-escaped', 'C02-function-doc-65', 'C02-function-doc-66', 'C02-google-multiline-description-truncated', 'C02-string-default-cut-at-full-stop']
FINDINGS = [f for f in FINDINGS if f["id"] not in FIXED_IDS]
