"""C03 known findings (bootstrapped like C02's, see findings_src/c02.py); every entry is a *single hop* that does not preserve its source state"""
RAW = [
 {
  "id": "C03-class-typ-00",
  "property": "C03",
  "pattern": {
   "check": "chain_hop",
   "last_hop": "class",
   "field": "typ",
   "expected": "int",
   "observed": "wrapped_optional",
   "typ_class": "int",
   "default_kind": "None"
  },
  "what": "",
  "site": "",
  "example": "{\"input\": {\"params\": [[\"alpha\", {\"doc\": \"the value\", \"typ\": \"int\"}], [\"beta\", {\"doc\": \"the value\", \"typ\": \"int\"}]], \"returns\": None}, \"cfg\": None, \"expected\": \"alpha.typ = 'int'\", \"observed\": \"'Optional[int]'\"}"
 },
 {
  "id": "C03-pydantic-typ-01",
  "property": "C03",
  "pattern": {
   "check": "chain_hop",
   "last_hop": "pydantic",
   "field": "typ",
   "expected": "int",
   "observed": "wrapped_optional",
   "typ_class": "int",
   "default_kind": "None"
  },
  "what": "",
  "site": "",
  "example": "{\"input\": {\"params\": [[\"alpha\", {\"doc\": \"the value\", \"typ\": \"int\"}], [\"beta\", {\"doc\": \"the value\", \"typ\": \"int\"}]], \"returns\": None}, \"cfg\": None, \"expected\": \"alpha.typ = 'int'\", \"observed\": \"'Optional[int]'\"}"
 },
 {
  "id": "C03-argparse-typ-02",
  "property": "C03",
  "pattern": {
   "check": "chain_hop",
   "last_hop": "argparse",
   "field": "typ",
   "expected": "int",
   "observed": "wrapped_optional",
   "typ_class": "int",
   "default_kind": "None"
  },
  "what": "",
  "site": "",
  "example": "{\"input\": {\"params\": [[\"alpha\", {\"doc\": \"the value\", \"typ\": \"int\"}], [\"beta\", {\"doc\": \"the value\", \"typ\": \"int\"}]], \"returns\": None}, \"cfg\": None, \"expected\": \"alpha.typ = 'int'\", \"observed\": \"'Optional[int]'\"}"
 },
 {
  "id": "C03-argparse-default-03",
  "property": "C03",
  "pattern": {
   "check": "chain_hop",
   "last_hop": "argparse",
   "field": "default",
   "expected": "None",
   "observed": "ABSENT",
   "default_kind": "None"
  },
  "what": "",
  "site": "",
  "example": "{\"input\": {\"params\": [[\"alpha\", {\"doc\": \"the value\", \"typ\": \"int\"}], [\"beta\", {\"doc\": \"the value\", \"typ\": \"int\"}]], \"returns\": None}, \"cfg\": None, \"expected\": \"alpha.default = '```(None)```'\", \"observed\": \"'<absent>'\"}"
 },
 {
  "id": "C03-class-typ-04",
  "property": "C03",
  "pattern": {
   "check": "chain_hop",
   "last_hop": "class",
   "field": "typ",
   "expected": "str",
   "observed": "wrapped_optional",
   "typ_class": "str",
   "default_kind": "None"
  },
  "what": "",
  "site": "",
  "example": "{\"input\": {\"params\": [[\"alpha\", {\"doc\": \"the value\", \"typ\": \"str\"}], [\"beta\", {\"doc\": \"the value\", \"typ\": \"int\"}]], \"returns\": None}, \"cfg\": None, \"expected\": \"alpha.typ = 'str'\", \"observed\": \"'Optional[str]'\"}"
 },
 {
  "id": "C03-pydantic-typ-05",
  "property": "C03",
  "pattern": {
   "check": "chain_hop",
   "last_hop": "pydantic",
   "field": "typ",
   "expected": "str",
   "observed": "wrapped_optional",
   "typ_class": "str",
   "default_kind": "None"
  },
  "what": "",
  "site": "",
  "example": "{\"input\": {\"params\": [[\"alpha\", {\"doc\": \"the value\", \"typ\": \"str\"}], [\"beta\", {\"doc\": \"the value\", \"typ\": \"int\"}]], \"returns\": None}, \"cfg\": None, \"expected\": \"alpha.typ = 'str'\", \"observed\": \"'Optional[str]'\"}"
 },
 {
  "id": "C03-argparse-typ-06",
  "property": "C03",
  "pattern": {
   "check": "chain_hop",
   "last_hop": "argparse",
   "field": "typ",
   "expected": "str",
   "observed": "wrapped_optional",
   "typ_class": "str",
   "default_kind": "None"
  },
  "what": "",
  "site": "",
  "example": "{\"input\": {\"params\": [[\"alpha\", {\"doc\": \"the value\", \"typ\": \"str\"}], [\"beta\", {\"doc\": \"the value\", \"typ\": \"int\"}]], \"returns\": None}, \"cfg\": None, \"expected\": \"alpha.typ = 'str'\", \"observed\": \"'Optional[str]'\"}"
 },
 {
  "id": "C03-argparse-default-07",
  "property": "C03",
  "pattern": {
   "check": "chain_hop",
   "last_hop": "argparse",
   "field": "default",
   "expected": "ABSENT",
   "observed": "emptystr",
   "typ_class": {
    "in": [
     "Literal",
     "str"
    ]
   },
   "default_kind": "ABSENT"
  },
  "what": "",
  "site": "",
  "example": "{\"input\": {\"params\": [[\"alpha\", {\"doc\": \"the value\", \"typ\": \"str\"}], [\"beta\", {\"doc\": \"the value\", \"typ\": \"int\", \"default\": 5}]], \"returns\": None}, \"cfg\": None, \"expected\": \"alpha.default = '<absent>'\", \"observed\": \"''\"}"
 },
 {
  "id": "C03-argparse-default-08",
  "property": "C03",
  "pattern": {
   "check": "chain_hop",
   "last_hop": "argparse",
   "field": "default",
   "expected": "ABSENT",
   "observed": "int",
   "typ_class": "int",
   "default_kind": "ABSENT"
  },
  "what": "",
  "site": "",
  "example": "{\"input\": {\"params\": [[\"alpha\", {\"doc\": \"the value\", \"typ\": \"int\"}], [\"beta\", {\"doc\": \"the value\", \"typ\": \"int\", \"default\": 5}]], \"returns\": None}, \"cfg\": None, \"expected\": \"alpha.default = '<absent>'\", \"observed\": \"0\"}"
 },
 {
  "id": "C03-docstring-default-09",
  "property": "C03",
  "pattern": {
   "check": "chain_hop",
   "last_hop": "docstring",
   "field": "default",
   "expected": "None",
   "observed": "str",
   "typ_class": {
    "in": [
     "Literal",
     "Optional",
     "str"
    ]
   },
   "default_kind": "None"
  },
  "what": "",
  "site": "",
  "example": "{\"input\": {\"params\": [[\"alpha\", {\"doc\": \"the value\", \"typ\": \"int\", \"default\": 5}], [\"beta\", {\"doc\": \"the value\", \"typ\": \"Optional[str]\", \"default\": \"```(None)```\"}]], \"returns\": None}, \"cfg\": None, \"expected\": \"beta.default = '```(None)```'\", \"observed\": \"'(None)'\"}"
 },
 {
  "id": "C03-docstring-typ-10",
  "property": "C03",
  "pattern": {
   "check": "chain_hop",
   "last_hop": "docstring",
   "field": "typ",
   "expected": "str",
   "observed": "wrapped_optional",
   "typ_class": "str",
   "default_kind": "None"
  },
  "what": "",
  "site": "",
  "example": "{\"input\": {\"params\": [[\"alpha\", {\"doc\": \"the value\", \"typ\": \"str\"}], [\"beta\", {\"doc\": \"the value\", \"typ\": \"str\"}]], \"returns\": None}, \"cfg\": None, \"expected\": \"alpha.typ = 'str'\", \"observed\": \"'Optional[str]'\"}"
 },
 {
  "id": "C03-docstring-parse-11",
  "property": "C03",
  "pattern": {
   "check": "chain_hop",
   "last_hop": "docstring",
   "field": "parse",
   "expected": "ok",
   "observed": "raises TypeError"
  },
  "what": "",
  "site": "",
  "example": "{\"input\": {\"params\": [[\"alpha\", {\"doc\": \"the value\", \"typ\": \"int\"}], [\"beta\", {\"doc\": \"the value\", \"typ\": \"Optional[str]\", \"default\": \"```(None)```\"}]], \"returns\": None}, \"cfg\": None, \"expected\": \"hop completes\", \"observed\": \"parse: TypeError: int() argument must be a string, a bytes-like object or a real number, not 'NoneType'\"}"
 },
 {
  "id": "C03-class-typ-12",
  "property": "C03",
  "pattern": {
   "check": "chain_hop",
   "last_hop": "class",
   "field": "typ",
   "expected": "Literal",
   "observed": "wrapped_optional",
   "typ_class": "Literal",
   "default_kind": "None"
  },
  "what": "",
  "site": "",
  "example": "{\"input\": {\"params\": [[\"alpha\", {\"doc\": \"the value\", \"typ\": \"Literal['a', 'b']\"}]], \"returns\": None}, \"cfg\": None, \"expected\": \"alpha.typ = \\\"Literal['a', 'b']\\\"\", \"observed\": \"\\\"Optional[Literal['a', 'b']]\\\"\"}"
 },
 {
  "id": "C03-pydantic-typ-13",
  "property": "C03",
  "pattern": {
   "check": "chain_hop",
   "last_hop": "pydantic",
   "field": "typ",
   "expected": "Literal",
   "observed": "wrapped_optional",
   "typ_class": "Literal",
   "default_kind": "None"
  },
  "what": "",
  "site": "",
  "example": "{\"input\": {\"params\": [[\"alpha\", {\"doc\": \"the value\", \"typ\": \"Literal['a', 'b']\"}]], \"returns\": None}, \"cfg\": None, \"expected\": \"alpha.typ = \\\"Literal['a', 'b']\\\"\", \"observed\": \"\\\"Optional[Literal['a', 'b']]\\\"\"}"
 },
 {
  "id": "C03-argparse-typ-14",
  "property": "C03",
  "pattern": {
   "check": "chain_hop",
   "last_hop": "argparse",
   "field": "typ",
   "expected": "Literal",
   "observed": "wrapped_optional",
   "typ_class": "Literal",
   "default_kind": "None"
  },
  "what": "",
  "site": "",
  "example": "{\"input\": {\"params\": [[\"alpha\", {\"doc\": \"the value\", \"typ\": \"Literal['a', 'b']\"}]], \"returns\": None}, \"cfg\": None, \"expected\": \"alpha.typ = \\\"Literal['a', 'b']\\\"\", \"observed\": \"\\\"Optional[Literal['a', 'b']]\\\"\"}"
 },
 {
  "id": "C03-docstring-default-15",
  "property": "C03",
  "pattern": {
   "check": "chain_hop",
   "last_hop": "docstring",
   "field": "default",
   "expected": "emptystr",
   "observed": "ABSENT",
   "typ_class": {
    "in": [
     "Optional",
     "str"
    ]
   },
   "default_kind": "emptystr"
  },
  "what": "",
  "site": "",
  "example": "{\"input\": {\"params\": [[\"alpha\", {\"doc\": \"the value\", \"typ\": \"str\", \"default\": \"\"}]], \"returns\": None}, \"cfg\": None, \"expected\": \"alpha.default = ''\", \"observed\": \"'<absent>'\"}"
 },
 {
  "id": "C03-argparse-default-16",
  "property": "C03",
  "pattern": {
   "check": "chain_hop",
   "last_hop": "argparse",
   "field": "default",
   "expected": "ABSENT",
   "observed": "float",
   "typ_class": "float",
   "default_kind": "ABSENT"
  },
  "what": "",
  "site": "",
  "example": "{\"input\": {\"params\": [[\"alpha\", {\"doc\": \"the value\", \"typ\": \"float\"}]], \"returns\": None}, \"cfg\": None, \"expected\": \"alpha.default = '<absent>'\", \"observed\": \"0.0\"}"
 },
 {
  "id": "C03-class-typ-17",
  "property": "C03",
  "pattern": {
   "check": "chain_hop",
   "last_hop": "class",
   "field": "typ",
   "expected": "float",
   "observed": "wrapped_optional",
   "typ_class": "float",
   "default_kind": "None"
  },
  "what": "",
  "site": "",
  "example": "{\"input\": {\"params\": [[\"alpha\", {\"doc\": \"the value\", \"typ\": \"float\"}]], \"returns\": None}, \"cfg\": None, \"expected\": \"alpha.typ = 'float'\", \"observed\": \"'Optional[float]'\"}"
 },
 {
  "id": "C03-pydantic-typ-18",
  "property": "C03",
  "pattern": {
   "check": "chain_hop",
   "last_hop": "pydantic",
   "field": "typ",
   "expected": "float",
   "observed": "wrapped_optional",
   "typ_class": "float",
   "default_kind": "None"
  },
  "what": "",
  "site": "",
  "example": "{\"input\": {\"params\": [[\"alpha\", {\"doc\": \"the value\", \"typ\": \"float\"}]], \"returns\": None}, \"cfg\": None, \"expected\": \"alpha.typ = 'float'\", \"observed\": \"'Optional[float]'\"}"
 },
 {
  "id": "C03-argparse-typ-19",
  "property": "C03",
  "pattern": {
   "check": "chain_hop",
   "last_hop": "argparse",
   "field": "typ",
   "expected": "float",
   "observed": "wrapped_optional",
   "typ_class": "float",
   "default_kind": "None"
  },
  "what": "",
  "site": "",
  "example": "{\"input\": {\"params\": [[\"alpha\", {\"doc\": \"the value\", \"typ\": \"float\"}]], \"returns\": None}, \"cfg\": None, \"expected\": \"alpha.typ = 'float'\", \"observed\": \"'Optional[float]'\"}"
 },
 {
  "id": "C03-argparse-typ-20",
  "property": "C03",
  "pattern": {
   "check": "chain_hop",
   "last_hop": "argparse",
   "field": "typ",
   "expected": "bool",
   "observed": "wrapped_optional",
   "typ_class": "bool",
   "default_kind": {
    "in": [
     "ABSENT",
     "None"
    ]
   }
  },
  "what": "",
  "site": "",
  "example": "{\"input\": {\"params\": [[\"alpha\", {\"doc\": \"the value\", \"typ\": \"bool\"}]], \"returns\": None}, \"cfg\": None, \"expected\": \"alpha.typ = 'bool'\", \"observed\": \"'Optional[bool]'\"}"
 },
 {
  "id": "C03-class-typ-21",
  "property": "C03",
  "pattern": {
   "check": "chain_hop",
   "last_hop": "class",
   "field": "typ",
   "expected": "bool",
   "observed": "wrapped_optional",
   "typ_class": "bool",
   "default_kind": "None"
  },
  "what": "",
  "site": "",
  "example": "{\"input\": {\"params\": [[\"alpha\", {\"doc\": \"the value\", \"typ\": \"bool\"}]], \"returns\": None}, \"cfg\": None, \"expected\": \"alpha.typ = 'bool'\", \"observed\": \"'Optional[bool]'\"}"
 },
 {
  "id": "C03-pydantic-typ-22",
  "property": "C03",
  "pattern": {
   "check": "chain_hop",
   "last_hop": "pydantic",
   "field": "typ",
   "expected": "bool",
   "observed": "wrapped_optional",
   "typ_class": "bool",
   "default_kind": "None"
  },
  "what": "",
  "site": "",
  "example": "{\"input\": {\"params\": [[\"alpha\", {\"doc\": \"the value\", \"typ\": \"bool\"}]], \"returns\": None}, \"cfg\": None, \"expected\": \"alpha.typ = 'bool'\", \"observed\": \"'Optional[bool]'\"}"
 },
 {
  "id": "C03-docstring-default-23",
  "property": "C03",
  "pattern": {
   "check": "chain_hop",
   "last_hop": "docstring",
   "field": "default",
   "expected": "None",
   "observed": "bool",
   "typ_class": "bool",
   "default_kind": "None"
  },
  "what": "",
  "site": "",
  "example": "{\"input\": {\"params\": [[\"alpha\", {\"doc\": \"the value\", \"typ\": \"bool\"}]], \"returns\": None}, \"cfg\": None, \"expected\": \"alpha.default = '```(None)```'\", \"observed\": \"False\"}"
 }
]

ROOTS = [
    (lambda p: p["last_hop"] == "argparse" and p["field"] == "default" and p["expected"] == "None", "R-argparse-none-default", "argparse hop drops a None default", "cdd/shared/ast_utils.py:param2argparse_param"),
    (lambda p: p["last_hop"] == "argparse" and p["field"] == "default", "R-argparse-zero-default", "argparse hop invents the zero value of the type for a parameter without default", "cdd/argparse_function/utils/emit_utils.py:parse_out_param"),
    (lambda p: p["field"] == "typ" and p["observed"] == "wrapped_optional", "R-none-default-wraps-optional",
     "second-hop drift: after a function hop turned 'no default' into '=None', the next hop wraps the type in Optional[...]", "cdd/shared/docstring_parsers.py:_set_name_and_type / cdd/class_/parse.py / cdd/shared/ast_utils.py:infer_type_and_default"),
    (lambda p: p["last_hop"] == "docstring" and p["field"] == "parse", "R-docstring-none-default-cast",
     "docstring hop of e.g. int parameter whose default is None: the parser calls int(None) and raises TypeError", "cdd/shared/defaults_utils.py:_parse_out_default_and_doc ({'int': int}[typ](lit))"),
    (lambda p: p["last_hop"] == "docstring" and p["field"] == "default" and p["observed"] == "bool", "R-docstring-none-default-cast",
     "docstring hop of a bool parameter whose default is None: bool(None) turns the default into False", "cdd/shared/defaults_utils.py:_parse_out_default_and_doc"),
    (lambda p: p["last_hop"] == "docstring" and p["field"] == "default" and p["expected"] == "None", "R-default-quotes", "as C01-none-default-comes-back-as-string", "cdd/shared/defaults_utils.py:extract_default"),
    (lambda p: p["last_hop"] == "docstring" and p["field"] == "default" and p["expected"] == "emptystr", "R-empty-default", "as C01-empty-string-default-lost", "cdd/shared/defaults_utils.py:set_default_doc"),
]


def _build():
    out = []
    for f in RAW:
        for pred, root, what, site in ROOTS:
            if pred(f["pattern"]):
                out.append(dict(f, what="[%s] %s" % (root, what), site=site))
                break
        else:
            raise AssertionError("no root cause for %r" % (f["pattern"],))
    return out


FINDINGS = _build() + [
    dict(id="C03-argparse-hop-int-default-narrows-declared-float", property="C03",
         pattern=dict(check="chain_hop", last_hop="argparse", entry="param", field="typ", default_kind="int", typ_class={"in": ["float", "Optional"]}, observed={"in": ["changed_to_int", "optional_base_changed_to_int"]}),
         what="argparse hop of a parameter declared float whose default is written as an int: the type comes back int - as C02-int-default-narrows-declared-float",
         site="cdd/shared/ast_utils.py:infer_type_and_default", example="{'alpha': {'typ': 'float', 'doc': 'the value', 'default': 2}} -> argparse"),
    dict(id="C03-docstring-hop-double-quote-in-default", property="C03",
         pattern=dict(check="chain_hop", last_hop="docstring", quote_in_default=True, field="parse", observed="raises SyntaxError"),
         what="[R-default-quote] docstring hop of a string default containing a double quote raises SyntaxError - as C01-double-quote-in-string-default-not-escaped",
         site="cdd/shared/pure_utils.py:quote", example="{'alpha': {'typ': 'str', 'default': 'say \"hi\"'}} -> docstring hop"),
    dict(id="C03-docstring-hop-cuts-string-default-at-full-stop", property="C03",
         pattern=dict(check="chain_hop", last_hop="docstring", dot_in_default=True, field={"in": ["parse", "default"]}, observed={"in": ["raises SyntaxError", "str"]}),
         what="[R-default-cut-at-dot] docstring hop of a string default containing a full stop ('a.b'): value cut at the dot or SyntaxError - as C01-string-default-cut-at-full-stop",
         site="cdd/shared/defaults_utils.py:extract_default", example="{'alpha': {'typ': 'str', 'default': 'a.b'}} -> docstring hop"),
    dict(id="C03-function-hop-with-default-prose-none-default-loses-code-quotes", property="C03",
         pattern=dict(check="chain_hop", last_hop="function_edd", from_initial=True, default_kind="None", typ_class="Optional", field={"in": ["default", "typ"]}, observed={"in": ["str", "optional_base_changed_to_str"]}),
         what="[R-docstring-none-default] a function written with 'Defaults to ```(None)```' in its docstring (emit_default_doc=True, what `gen` does): the docstring's default wins over the signature's and comes back "
              "as the string '(None)' (and Optional[int] as Optional[str]) - the per-format finding of C01/C02 on a function hop",
         site="cdd/shared/defaults_utils.py:extract_default (strips the code quotes) / cdd/shared/parse/utils/parser_utils.py:merge_present_params", example="{'alpha': {'typ': 'Optional[int]', 'default': NoneStr}} -> function hop with emit_default_doc=True"),
    dict(id="C03-function-hop-with-default-prose-int-default-narrows-declared-float", property="C03",
         pattern=dict(check="chain_hop", last_hop="function_edd", from_initial=True, entry="param", field="typ", default_kind="int", typ_class="float", observed="changed_to_int"),
         what="the same function hop of a parameter declared float whose default is written as an int: the type comes back int - as C02-int-default-narrows-declared-float",
         site="cdd/shared/ast_utils.py:infer_type_and_default / cdd/shared/docstring_parsers.py:_infer_default", example="{'alpha': {'typ': 'float', 'default': 2}} -> function hop with emit_default_doc=True"),
]
FIXED = [
    'fixed: property=C03 fc46805 docstring hop of a string default containing a full stop: value cut at the dot or SyntaxError',
    'fixed: property=C03 26237d2 docstring hop of a string default containing a double quote raised SyntaxError',
    'fixed: property=C03 efa4dbd docstring hop lost an empty-string default',
]

# patterns of defects that have since been repaired in the repository (see FIXED): no longer known findings
FIXED_IDS = ['C03-docstring-default-15', 'C03-docstring-hop-cuts-string-default-at-full-stop', 'C03-docstring-hop-double-quote-in-default']
FINDINGS = [f for f in FINDINGS if f["id"] not in FIXED_IDS]
