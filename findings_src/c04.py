FINDINGS = [
    dict(id="C04-argparse-required-although-default", property="C04",
         pattern=dict(check="emitted_code", fmt="argparse", clause="argparse_required", want=False, got=True),
         what="every parameter that has a default is emitted with required=True, so 'parsing no optional arguments yields the described defaults' cannot hold: the parser insists on the option",
         site="cdd/shared/ast_utils.py:param2argparse_param (required = default is not None ...)",
         example="{'alpha': {'typ': 'int', 'doc': 'the value', 'default': 5}} -> add_argument('--alpha', type=int, help=..., required=True, default=5)"),
    dict(id="C04-class-dict-attribute-gets-empty-dict", property="C04",
         pattern=dict(check="emitted_code", fmt={"in": ["class", "pydantic"]}, clause="class_default", typ_class="dict", default_kind="ABSENT"),
         what="a dict attribute without default is emitted as `alpha: dict = {}` - a (shared, mutable) value the description does not have",
         site="cdd/shared/ast_utils.py:param2ast (typ == 'dict' branch: value=Dict(keys=[], values=...))",
         example="{'alpha': {'typ': 'dict', 'doc': 'the value'}} -> class Cfg: alpha: dict = {}"),
]
FIXED = [
    "fixed: property=C04 cbd61a3 argparse: a parameter typed Literal['a'] (exactly one member) was emitted without choices, so the populated parser accepted any value (found when the single-member Literal joined the type alphabet)",
    "fixed: property=C04 19dbe71 argparse: a default-less parameter typed Literal[1, 2] was emitted as add_argument(choices=(1, 2)) without type=int, so the populated parser rejected every value ('1' is not among the ints)",
]
