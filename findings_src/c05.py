RT = "sqlalchemy_roundtrip"
_ID = ("a primary-key column named 'id' (explicit [PK], inferred, or forced by force_pk_id) is always emitted as the synthetic "
       "`id = Column(Integer, primary_key=True, server_default=Identity())`: ")
_SITE = "cdd/sqlalchemy/utils/emit_utils.py:param_to_sqlalchemy_column_calls / ensure_has_primary_key (name == 'id' special case)"
FINDINGS = [
    dict(id="C05-id-pk-column-type-lost", property="C05", pattern=dict(check=RT, column="id", field="typ", observed="int"),
         what=_ID + "its declared type is replaced by int", site=_SITE,
         example="{'id': {'typ': 'str', 'doc': 'the value'}} with force_pk_id=True -> id = Column(Integer, primary_key=True, server_default=Identity())"),
    dict(id="C05-id-pk-column-default-lost", property="C05", pattern=dict(check=RT, column="id", field="default", observed="ABSENT"),
         what=_ID + "its default is lost", site=_SITE,
         example="{'id': {'typ': 'str', 'doc': 'the value', 'default': 'a'}} with force_pk_id=True"),
    dict(id="C05-id-pk-column-doc-lost", property="C05", pattern=dict(check=RT, column="id", field="doc", observed="truncated"),
         what=_ID + "its description (and any [FK(..)] marker) is reduced to '[PK]'", site=_SITE,
         example="{'id': {'typ': 'int', 'doc': 'the value'}} -> parsed description '[PK]' instead of '[PK] the value'"),
    dict(id="C05-dict-becomes-optional", property="C05", pattern=dict(check=RT, field="typ", expected="dict", observed="Optional[dict]"),
         what="a dict column comes back as Optional[dict] (JSON columns are emitted without nullable=False and parsed as nullable)",
         site="cdd/sqlalchemy/utils/emit_utils.py:typ2column_type ('Optional[dict]': 'JSON') / cdd/sqlalchemy/utils/parse_utils.py:column_call_to_param",
         example="{'alpha': {'typ': 'dict', 'doc': 'the value'}} in any variant"),
]
FIXED = [
    "fixed: property=C05 d87d6c0 a column typed Literal['a'] (exactly one member) was emitted as Column(Literal['a'], LargeBinary, ...) in all three variants; parsed back it had no type (and with an FK marker the parser raised)",
    "fixed: property=C05 0ef38b5 every emitted hybrid class failed to parse (AssertionError: 'Cfg' != '__table__'), so the hybrid variant never round-tripped or agreed with the other two",
]
