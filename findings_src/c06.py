FINDINGS = [
    dict(
        id="C06-literal-pattern-unanchored",
        property="C06",
        pattern=dict(check="json_schema", clause="literal_pattern_inexact", kind="accepts_non_member"),
        what="the pattern emitted for a Literal type is the bare alternation 'a|b' (unanchored), so it also accepts 'xa', 'ab', 'a|b' - not exactly the members",
        site="cdd/json_schema/utils/emit_utils.py:param2json_schema_property ('pattern': '|'.join(enum))",
        example="{'alpha': {'typ': \"Literal['a', 'b']\"}} -> {'pattern': 'a|b', 'type': 'string'}; re.search('a|b', 'xa') matches",
    ),
    dict(
        id="C06-none-default-of-optional-dropped",
        property="C06",
        pattern=dict(check="json_schema", clause="roundtrip", field="default", expected="None", observed="ABSENT", typ_class="Optional"),
        what="the None default of an Optional parameter is deliberately not emitted ('will be inferred as null from the type') and is therefore absent after parsing the schema back",
        site="cdd/json_schema/utils/emit_utils.py:param2json_schema_property (del _param['default'] when in none_types)",
        example="{'alpha': {'typ': 'Optional[int]', 'default': NoneStr}} -> property without default -> parsed interface without default",
    ),
    dict(
        id="C06-literal-members-not-regex-escaped",
        property="C06",
        pattern=dict(check="json_schema", clause="literal_pattern_inexact", kind="rejects_member", metachars=True),
        what="Literal members are joined into the pattern without escaping, so a member containing a regex metacharacter ('a+b', 'v1.5') is not matched by its own pattern ('a+b' matches 'aab', not 'a+b')",
        site="cdd/json_schema/utils/emit_utils.py:param2json_schema_property ('pattern': '|'.join(enum))",
        example="{'alpha': {'typ': \"Literal['v1.5', 'a+b']\"}} -> {'pattern': 'a+b|v1.5'}; re.search('a+b|v1.5', 'a+b') is None",
    ),
    dict(
        id="C06-literal-default-with-metachar-fails-own-pattern",
        property="C06",
        pattern=dict(check="json_schema", clause="default_invalid_for_own_schema", typ_class="Literal", metachars=True),
        what="consequence of the previous finding: a default that is such a member does not validate against its own property schema",
        site="cdd/json_schema/utils/emit_utils.py:param2json_schema_property",
        example="{'alpha': {'typ': \"Literal['v1.5', 'a+b']\", 'default': 'a+b'}}",
    ),
]
FIXED = [
    "fixed: property=C06 039e7cc json_schema emit raised AttributeError ('str' object has no attribute 'elts') for a parameter typed Literal['a'] (exactly one member)",
    "fixed: property=C06 5f2c9cf an interface with an empty description emitted \"description\": null, which the draft 2020-12 meta-schema rejects and cdd.json_schema.parse.json_schema crashed on",
]
