FINDINGS = [
    dict(
        id="C06-literal-pattern-unanchored",
        property="C06",
        pattern=dict(check="json_schema", clause="literal_pattern_inexact", kind="accepts_non_member"),
        what="the pattern emitted for a Literal type is the bare alternation 'a|b' (unanchored), so it also accepts 'xa', 'ab', 'a|b' - not exactly the members",
        site="cdd/json_schema/utils/emit_utils.py:param2json_schema_property ('pattern': '|'.join(enum))",
        example="{'alpha': {'typ': \"Literal['a', 'b']\"}} -> {'pattern': 'a|b', 'type': 'string'}; re.search('a|b', 'xa') matches",
    ),
    dict(
        id="C06-none-default-of-optional-dropped",
        property="C06",
        pattern=dict(check="json_schema", clause="roundtrip", field="default", expected="None", observed="ABSENT", typ_class="Optional"),
        what="the None default of an Optional parameter is deliberately not emitted ('will be inferred as null from the type') and is therefore absent after parsing the schema back",
        site="cdd/json_schema/utils/emit_utils.py:param2json_schema_property (del _param['default'] when in none_types)",
        example="{'alpha': {'typ': 'Optional[int]', 'default': NoneStr}} -> property without default -> parsed interface without default",
    ),
]
FIXED = [
    "fixed: property=C06 5f2c9cf an interface with an empty description emitted \"description\": null, which the draft 2020-12 meta-schema rejects and cdd.json_schema.parse.json_schema crashed on",
]
