FINDINGS = [
    dict(id="C07-crlf-line-endings-converted", property="C07",
         pattern=dict(check="doctrans", clause="line_endings_changed", layout="crlf"),
         what="a file with CRLF line endings is read and written in text mode: every line, not only headers and docstrings, comes back with LF endings (on POSIX)",
         site="cdd/compound/doctrans.py:doctrans (open(filename, 'rt') / open(filename, 'wt') with universal newlines)",
         example="any module with \\r\\n line endings whose docstrings change"),
    dict(id="C07-raw-docstring-kept-and-second-docstring-added", property="C07",
         pattern=dict(check="doctrans", layout="raw_doc", clause={"in": ["erased_ast_differs", "other_lines_differ"]}),
         what="a docstring written as a raw string (r\"\"\"...\"\"\") is not recognised as the existing docstring in the concrete syntax: a new docstring is inserted above it and the old one "
         "stays behind as an expression statement (the erased AST gains a statement)",
         site="cdd/shared/cst_utils.py:cst_parse_one_node (TripleQuoted requires the statement to *start* with the quotes) / cdd/shared/ast_cst_utils.py:maybe_replace_doc_str_in_function_or_class",
         example="def f(a, b):\\n    r\"\"\"Summary...\"\"\"  -> two string statements after doctrans"),
    dict(id="C07-tab-indented-file-corrupted", property="C07",
         pattern=dict(check="doctrans", layout="tabs", clause="result_does_not_parse"),
         what="a tab-indented module is corrupted: the docstring is emitted several times with unbalanced quotes and the result is not valid Python",
         site="cdd/shared/ast_cst_utils.py:maybe_replace_doc_str_in_function_or_class (indentation arithmetic assumes spaces) / cdd/docstring/emit.py",
         example="def f(a, b):\\n\\t\"\"\"...\"\"\"\\n\\treturn a   with any target style"),
    dict(id="C07-one-line-def-with-docstring-corrupted", property="C07",
         pattern=dict(check="doctrans", layout="oneline_def_doc", clause="result_does_not_parse"),
         what="a definition whose docstring sits on the header line (def f(a, b): \"\"\"Summary.\"\"\") is rewritten into an unterminated triple-quoted string",
         site="cdd/shared/ast_cst_utils.py:maybe_replace_doc_str_in_function_or_class (assumes the docstring is its own CST node after the header)",
         example="def f(a, b): \"\"\"Summary of it.\"\"\""),
    dict(id="C07-comment-between-header-and-docstring-docstring-duplicated", property="C07",
         pattern=dict(check="doctrans", layout="comment_after_header", clause={"in": ["erased_ast_differs", "other_lines_differ"]}),
         what="a comment line between a def/class header and its docstring: the docstring is looked for in the CST node right after the header, the comment is found there instead, so the converted "
              "docstring is *inserted* above the comment and the old one stays behind as a string statement (a blank line in that place is handled)",
         site="cdd/shared/ast_cst_utils.py:maybe_replace_doc_str_in_function_or_class (cst_list[cst_idx + 1] assumed to be the docstring)",
         example="def f(a, b=5):\n    # note under the header\n    \"\"\"Summary of it. ...\"\"\"\n    return a   with any target style"),
]
FIXED = [
    "fixed: property=C07 a43d289 a header whose string default contains '->' (def f(a, sep='->')) was cut at the string when annotations were added or removed; the result was not valid Python",
    "fixed: property=C07 a5b649f doctrans with annotations added/removed rebuilt headers from names+annotations only: defaults, *args, **kwargs, keyword-only and positional-only markers were lost (def f(a, b=5) -> def f(a: str, b: int))",
]
