FINDINGS = []
FIXED = [
    "fixed: property=C07 a43d289 a header whose string default contains '->' (def f(a, sep='->')) was cut at the string when annotations were added or removed; the result was not valid Python",
    "fixed: property=C07 a5b649f doctrans with annotations added/removed rebuilt headers from names+annotations only: defaults, *args, **kwargs, keyword-only and positional-only markers were lost (def f(a, b=5) -> def f(a: str, b: int))",
]
