"""C08 known findings (bootstrapped like C02's): each is a format whose second..fourth emit->parse round differs from the first"""
RAW = [
 {
  "id": "C08-sqlalchemy-header-00",
  "property": "C08",
  "pattern": {
   "check": "fixpoint",
   "fmt": "sqlalchemy",
   "field": "header",
   "expected": "stable",
   "observed": "whitespace_changed",
   "style": "rest"
  },
  "what": "",
  "site": "",
  "example": "{\"input\": {\"params\": [[\"alpha\", {\"doc\": \"the value\", \"typ\": \"int\"}]], \"returns\": None}, \"cfg\": None, \"expected\": \"header = 'Summary line.\\\\n        '\", \"observed\": \"'Summary line.\\\\n    \\\\n            \\\\n    \\\\n        '\"}"
 },
 {
  "id": "C08-argparse-typ-01",
  "property": "C08",
  "pattern": {
   "check": "fixpoint",
   "fmt": "argparse",
   "field": "typ",
   "expected": "List",
   "observed": "changed_to_Optional",
   "style": "rest",
   "typ_class": "List",
   "default_kind": "str"
  },
  "what": "",
  "site": "",
  "example": "{\"input\": {\"params\": [[\"alpha\", {\"doc\": \"the value\", \"typ\": \"List[str]\", \"default\": \"```['a', 'b']```\"}]], \"returns\": None}, \"cfg\": None, \"expected\": \"typ = 'List[Optional[dict]]'\", \"observed\": \"'Optional[List[str]]'\"}"
 },
 {
  "id": "C08-argparse-typ-02",
  "property": "C08",
  "pattern": {
   "check": "fixpoint",
   "fmt": "argparse",
   "field": "typ",
   "expected": "Optional",
   "observed": "changed_to_Optional",
   "style": "rest",
   "typ_class": "Optional",
   "default_kind": {
    "in": [
     "None",
     "str"
    ]
   }
  },
  "what": "",
  "site": "",
  "example": "{\"input\": {\"params\": [[\"alpha\", {\"doc\": \"the value\", \"typ\": \"dict\", \"default\": \"```{'k': 1}```\"}]], \"returns\": None}, \"cfg\": None, \"expected\": \"typ = 'Optional[dict]'\", \"observed\": \"'Optional[str]'\"}"
 },
 {
  "id": "C08-docstring-default-03",
  "property": "C08",
  "pattern": {
   "check": "fixpoint",
   "fmt": "docstring",
   "field": "default",
   "expected": "str",
   "observed": "bool",
   "style": {
    "in": [
     "google",
     "numpydoc"
    ]
   },
   "typ_class": "bool",
   "default_kind": "str"
  },
  "what": "",
  "site": "",
  "example": "{\"input\": {\"params\": [[\"alpha\", {\"doc\": \"whether to do it\", \"typ\": \"str\", \"default\": \"a\"}]], \"returns\": None}, \"cfg\": None, \"expected\": \"default = 'a'\", \"observed\": \"True\"}"
 },
 {
  "id": "C08-docstring-names-04",
  "property": "C08",
  "pattern": {
   "check": "fixpoint",
   "fmt": "docstring",
   "field": "names",
   "expected": "stable",
   "observed": "changed",
   "style": "numpydoc"
  },
  "what": "",
  "site": "",
  "example": "{\"input\": {\"params\": [[\"alpha\", {\"doc\": \"the value\"}]], \"returns\": None}, \"cfg\": None, \"expected\": \"names = ['the value']\", \"observed\": \"[]\"}"
 },
 {
  "id": "C08-docstring-default-05",
  "property": "C08",
  "pattern": {
   "check": "fixpoint",
   "fmt": "docstring",
   "field": "default",
   "expected": "int",
   "observed": "bool",
   "style": {
    "in": [
     "google",
     "numpydoc"
    ]
   },
   "typ_class": "bool",
   "default_kind": "int"
  },
  "what": "",
  "site": "",
  "example": "{\"input\": {\"params\": [[\"alpha\", {\"doc\": \"whether to do it\", \"typ\": \"int\", \"default\": 5}]], \"returns\": None}, \"cfg\": None, \"expected\": \"default = 5\", \"observed\": \"True\"}"
 },
 {
  "id": "C08-docstring-parse-06",
  "property": "C08",
  "pattern": {
   "check": "fixpoint",
   "fmt": "docstring",
   "field": "parse",
   "expected": "stable",
   "observed": "raises TypeError",
   "style": {
    "in": [
     "google",
     "numpydoc"
    ]
   },
   "typ_classes": "int",
   "default_kinds": "str"
  },
  "what": "",
  "site": "",
  "example": "{\"input\": {\"params\": [[\"alpha\", {\"doc\": \"an integer count\", \"typ\": \"Optional[int]\", \"default\": \"```(None)```\"}]], \"returns\": None}, \"cfg\": None, \"expected\": \"round 2 succeeds like round 1\", \"observed\": \"parse: TypeError: int() argument must be a string, a bytes-like object or a real number, not 'NoneType'\"}"
 },
 {
  "id": "C08-docstring-parse-07",
  "property": "C08",
  "pattern": {
   "check": "fixpoint",
   "fmt": "docstring",
   "field": "parse",
   "expected": "stable",
   "observed": "raises ValueError",
   "style": {
    "in": [
     "google",
     "numpydoc"
    ]
   },
   "typ_classes": {
    "in": [
     "bool",
     "int",
     "str"
    ]
   },
   "default_kinds": "str"
  },
  "what": "",
  "site": "",
  "example": "{\"input\": {\"params\": [[\"alpha\", {\"doc\": \"an integer count\", \"typ\": \"str\", \"default\": \"a\"}]], \"returns\": None}, \"cfg\": None, \"expected\": \"round 2 succeeds like round 1\", \"observed\": \"parse: ValueError: invalid literal for int() with base 10: 'a'\"}"
 },
 {
  "id": "C08-function-reread-08",
  "property": "C08",
  "pattern": {
   "check": "fixpoint",
   "fmt": "function",
   "field": "reread",
   "expected": "stable",
   "observed": "raises SyntaxError",
   "style": "rest",
   "typ_classes": {
    "in": [
     "Union",
     "bool",
     "int"
    ]
   },
   "default_kinds": "str"
  },
  "what": "",
  "site": "",
  "example": "{\"input\": {\"params\": [[\"alpha\", {\"doc\": \"string name of it\", \"typ\": \"int\", \"default\": -5}]], \"returns\": None}, \"cfg\": None, \"expected\": \"round 2 succeeds like round 1\", \"observed\": \"reread: SyntaxError: invalid syntax (<unknown>, line 1)\"}"
 },
 {
  "id": "C08-argparse-default-09",
  "property": "C08",
  "pattern": {
   "check": "fixpoint",
   "fmt": "argparse",
   "field": "default",
   "expected": "code",
   "observed": "code",
   "style": "rest",
   "typ_class": "str",
   "default_kind": "code"
  },
  "what": "",
  "site": "",
  "example": "{\"input\": {\"params\": [[\"alpha\", {\"doc\": \"the value\", \"typ\": \"pkg.Kind\", \"default\": \"```pkg.Kind.A```\"}]], \"returns\": None}, \"cfg\": None, \"expected\": \"default = '```(pkg.Kind)```'\", \"observed\": \"'```(pkg)```'\"}"
 },
 {
  "id": "C08-argparse-default-10",
  "property": "C08",
  "pattern": {
   "check": "fixpoint",
   "fmt": "argparse",
   "field": "default",
   "expected": "None",
   "observed": "ABSENT",
   "style": "rest",
   "typ_class": "Optional",
   "default_kind": "None"
  },
  "what": "",
  "site": "",
  "example": "{\"input\": {\"params\": [[\"alpha\", {\"doc\": \"the value\", \"typ\": \"dict\"}]], \"returns\": None}, \"cfg\": None, \"expected\": \"default = '```(None)```'\", \"observed\": \"'<absent>'\"}"
 },
 {
  "id": "C08-docstring-typ-11",
  "property": "C08",
  "pattern": {
   "check": "fixpoint",
   "fmt": "docstring",
   "field": "typ",
   "expected": "str",
   "observed": "wrapped_optional",
   "style": "google",
   "typ_class": "str",
   "default_kind": "str"
  },
  "what": "",
  "site": "",
  "example": "{\"input\": {\"params\": [[\"alpha\", {\"doc\": \"the value\", \"default\": \"```(None)```\"}]], \"returns\": None}, \"cfg\": None, \"expected\": \"typ = 'str'\", \"observed\": \"'Optional[str]'\"}"
 },
 {
  "id": "C08-docstring-default-12",
  "property": "C08",
  "pattern": {
   "check": "fixpoint",
   "fmt": "docstring",
   "field": "default",
   "expected": "float",
   "observed": "int",
   "style": {
    "in": [
     "google",
     "numpydoc"
    ]
   },
   "typ_class": "int",
   "default_kind": "float"
  },
  "what": "",
  "site": "",
  "example": "{\"input\": {\"params\": [[\"alpha\", {\"doc\": \"an integer count\", \"typ\": \"float\", \"default\": 0.5}]], \"returns\": None}, \"cfg\": None, \"expected\": \"default = 0.5\", \"observed\": \"0\"}"
 },
 {
  "id": "C08-docstring-default-13",
  "property": "C08",
  "pattern": {
   "check": "fixpoint",
   "fmt": "docstring",
   "field": "default",
   "expected": "float",
   "observed": "bool",
   "style": {
    "in": [
     "google",
     "numpydoc"
    ]
   },
   "typ_class": "bool",
   "default_kind": "float"
  },
  "what": "",
  "site": "",
  "example": "{\"input\": {\"params\": [[\"alpha\", {\"doc\": \"whether to do it\", \"typ\": \"float\", \"default\": 0.5}]], \"returns\": None}, \"cfg\": None, \"expected\": \"default = 0.5\", \"observed\": \"True\"}"
 },
 {
  "id": "C08-docstring-default-14",
  "property": "C08",
  "pattern": {
   "check": "fixpoint",
   "fmt": "docstring",
   "field": "default",
   "expected": "bool",
   "observed": "int",
   "style": {
    "in": [
     "google",
     "numpydoc"
    ]
   },
   "typ_class": "int",
   "default_kind": "bool"
  },
  "what": "",
  "site": "",
  "example": "{\"input\": {\"params\": [[\"alpha\", {\"doc\": \"an integer count\", \"typ\": \"bool\", \"default\": True}]], \"returns\": None}, \"cfg\": None, \"expected\": \"default = True\", \"observed\": \"1\"}"
 },
 {
  "id": "C08-docstring-default-15",
  "property": "C08",
  "pattern": {
   "check": "fixpoint",
   "fmt": "docstring",
   "field": "default",
   "expected": "negint",
   "observed": "bool",
   "style": {
    "in": [
     "google",
     "numpydoc"
    ]
   },
   "typ_class": "bool",
   "default_kind": "negint"
  },
  "what": "",
  "site": "",
  "example": "{\"input\": {\"params\": [[\"alpha\", {\"doc\": \"whether to do it\", \"typ\": \"int\", \"default\": -5}]], \"returns\": None}, \"cfg\": None, \"expected\": \"default = -5\", \"observed\": \"True\"}"
 },
 {
  "id": "C08-class-typ-16",
  "property": "C08",
  "pattern": {
   "check": "fixpoint",
   "fmt": "class",
   "field": "typ",
   "expected": "none",
   "observed": "inferred_Optional",
   "style": "rest",
   "typ_class": "none",
   "default_kind": "None"
  },
  "what": "",
  "site": "",
  "example": "{\"input\": {\"params\": [[\"alpha\", {\"doc\": \"the value\"}]], \"returns\": None}, \"cfg\": None, \"expected\": \"typ = None\", \"observed\": \"'Optional[Any]'\"}"
 },
 {
  "id": "C08-pydantic-typ-17",
  "property": "C08",
  "pattern": {
   "check": "fixpoint",
   "fmt": "pydantic",
   "field": "typ",
   "expected": "none",
   "observed": "inferred_Optional",
   "style": "rest",
   "typ_class": "none",
   "default_kind": "None"
  },
  "what": "",
  "site": "",
  "example": "{\"input\": {\"params\": [[\"alpha\", {\"doc\": \"the value\"}]], \"returns\": None}, \"cfg\": None, \"expected\": \"typ = None\", \"observed\": \"'Optional[Any]'\"}"
 },
 {
  "id": "C08-docstring-default-18",
  "property": "C08",
  "pattern": {
   "check": "fixpoint",
   "fmt": "docstring",
   "field": "default",
   "expected": "negfloat",
   "observed": "bool",
   "style": {
    "in": [
     "google",
     "numpydoc"
    ]
   },
   "typ_class": "bool",
   "default_kind": "negfloat"
  },
  "what": "",
  "site": "",
  "example": "{\"input\": {\"params\": [[\"alpha\", {\"doc\": \"whether to do it\", \"typ\": \"float\", \"default\": -0.5}]], \"returns\": None}, \"cfg\": None, \"expected\": \"default = -0.5\", \"observed\": \"True\"}"
 },
 {
  "id": "C08-docstring-default-19",
  "property": "C08",
  "pattern": {
   "check": "fixpoint",
   "fmt": "docstring",
   "field": "default",
   "expected": "negfloat",
   "observed": "int",
   "style": {
    "in": [
     "google",
     "numpydoc"
    ]
   },
   "typ_class": "int",
   "default_kind": "negfloat"
  },
  "what": "",
  "site": "",
  "example": "{\"input\": {\"params\": [[\"alpha\", {\"doc\": \"an integer count\", \"typ\": \"float\", \"default\": -0.5}]], \"returns\": None}, \"cfg\": None, \"expected\": \"default = -0.5\", \"observed\": \"0\"}"
 },
 {
  "id": "C08-class-default-20",
  "property": "C08",
  "pattern": {
   "check": "fixpoint",
   "fmt": "class",
   "field": "default",
   "expected": "str",
   "observed": "code",
   "style": "rest",
   "typ_class": "list",
   "default_kind": "str"
  },
  "what": "",
  "site": "",
  "example": "{\"input\": {\"params\": [[\"alpha\", {\"doc\": \"list of names\", \"typ\": \"str\", \"default\": \"a b\"}]], \"returns\": None}, \"cfg\": None, \"expected\": \"default = 'a b'\", \"observed\": \"'```a b```'\"}"
 },
 {
  "id": "C08-pydantic-default-21",
  "property": "C08",
  "pattern": {
   "check": "fixpoint",
   "fmt": "pydantic",
   "field": "default",
   "expected": "str",
   "observed": "code",
   "style": "rest",
   "typ_class": "list",
   "default_kind": "str"
  },
  "what": "",
  "site": "",
  "example": "{\"input\": {\"params\": [[\"alpha\", {\"doc\": \"list of names\", \"typ\": \"str\", \"default\": \"a b\"}]], \"returns\": None}, \"cfg\": None, \"expected\": \"default = 'a b'\", \"observed\": \"'```a b```'\"}"
 },
 {
  "id": "C08-class-emit-22",
  "property": "C08",
  "pattern": {
   "check": "fixpoint",
   "fmt": "class",
   "field": "emit",
   "expected": "stable",
   "observed": "raises IndexError",
   "style": "rest",
   "typ_classes": "list",
   "default_kinds": "emptystr"
  },
  "what": "",
  "site": "",
  "example": "{\"input\": {\"params\": [[\"alpha\", {\"doc\": \"list of names\", \"typ\": \"str\", \"default\": \"\"}]], \"returns\": None}, \"cfg\": None, \"expected\": \"round 2 succeeds like round 1\", \"observed\": \"emit: IndexError: list index out of range\"}"
 },
 {
  "id": "C08-pydantic-emit-23",
  "property": "C08",
  "pattern": {
   "check": "fixpoint",
   "fmt": "pydantic",
   "field": "emit",
   "expected": "stable",
   "observed": "raises IndexError",
   "style": "rest",
   "typ_classes": "list",
   "default_kinds": "emptystr"
  },
  "what": "",
  "site": "",
  "example": "{\"input\": {\"params\": [[\"alpha\", {\"doc\": \"list of names\", \"typ\": \"str\", \"default\": \"\"}]], \"returns\": None}, \"cfg\": None, \"expected\": \"round 2 succeeds like round 1\", \"observed\": \"emit: IndexError: list index out of range\"}"
 },
 {
  "id": "C08-argparse-typ-24",
  "property": "C08",
  "pattern": {
   "check": "fixpoint",
   "fmt": "argparse",
   "field": "typ",
   "expected": "Literal",
   "observed": "changed_to_int",
   "style": "rest",
   "typ_class": "Literal",
   "default_kind": "int"
  },
  "what": "",
  "site": "",
  "example": "{\"input\": {\"params\": [[\"alpha\", {\"doc\": \"the value, defaults to 3\", \"typ\": \"Literal['a', 'b']\"}]], \"returns\": None}, \"cfg\": None, \"expected\": \"typ = 'Literal[a, b]'\", \"observed\": \"'int'\"}"
 },
 {
  "id": "C08-docstring-parse-25",
  "property": "C08",
  "pattern": {
   "check": "fixpoint",
   "fmt": "docstring",
   "field": "parse",
   "expected": "stable",
   "observed": "raises SyntaxError",
   "style": "numpydoc",
   "typ_classes": "int",
   "default_kinds": "str"
  },
  "what": "",
  "site": "",
  "example": "{\"input\": {\"params\": [[\"alpha\", {\"doc\": \"the value\", \"typ\": \"Optional[str]\", \"default\": \"```(None)```\"}], [\"beta\", {\"doc\": \"number of items\", \"default\": 5}]], \"returns\": None}, \"cfg\": None, \"expected\": \"round 2 succeeds like round 1\", \"observed\": \"parse: SyntaxError: invalid syntax (<unknown>, line 1)\"}"
 },
 {
  "id": "C08-docstring-default-26",
  "property": "C08",
  "pattern": {
   "check": "fixpoint",
   "fmt": "docstring",
   "field": "default",
   "expected": "str",
   "observed": "str",
   "style": "numpydoc",
   "typ_class": "Literal",
   "default_kind": "str"
  },
  "what": "",
  "site": "",
  "example": "{\"input\": {\"params\": [[\"alpha\", {\"doc\": \"the value\", \"typ\": \"Literal['a', 'b']\", \"default\": \"a\"}], [\"beta\", {\"doc\": \"number of items\", \"default\": 5}]], \"returns\": None}, \"cfg\": None, \"expected\": \"default = '\\\"a\\\"\\\\nnumber of items'\", \"observed\": \"'\\\"a\\\" number of items'\"}"
 }
]

ROOTS = [
    (lambda p: p["fmt"].startswith("sqlalchemy") and p["field"] == "header", "R-sqlalchemy-header-whitespace",
     "declarative SQLAlchemy class: every round adds indentation/blank lines to the class docstring header", "cdd/sqlalchemy/emit.py:sqlalchemy (docstring indent) / cdd/sqlalchemy/parse.py"),
    (lambda p: p["fmt"] == "docstring" and p["field"] == "default" and p["observed"] in ("bool", "int") , "R-trigger-type-recasts-default",
     "a trigger word in the description ('whether', 'integer', 'number') changes the parsed type on round 1 and the default is then cast to that type on round 2 (\"a\" -> True, 0.5 -> 0)", "cdd/docstring/utils/parse_utils.py:parse_adhoc_doc_for_typ + cdd/shared/defaults_utils.py:_parse_out_default_and_doc"),
    (lambda p: p["fmt"] == "docstring" and p["field"] in ("parse",), "R-trigger-type-recasts-default",
     "same mechanism: the cast of the default to the doc-derived type raises on a later round (int('a'), int(None))", "cdd/shared/defaults_utils.py:_parse_out_default_and_doc"),
    (lambda p: p["fmt"] == "docstring" and p["field"] == "names", "R-numpydoc-untyped",
     "NumPy style: an untyped parameter is emitted without its name; round 1 reads the description as the name, round 2 loses it", "cdd/shared/docstring_utils.py:emit_param_str (numpydoc)"),
    (lambda p: p["fmt"] == "docstring" and p["field"] == "default" and p["observed"] == "str", "R-numpydoc-untyped",
     "NumPy style, typed parameter followed by an untyped one: the second parameter's text is appended to the first one's default and re-flowed each round", "cdd/shared/docstring_utils.py:emit_param_str (numpydoc)"),
    (lambda p: p["fmt"] == "docstring" and p["field"] == "typ", "R-none-default-wraps-optional", "str parameter with None default is wrapped into Optional[str] only on the second round", "cdd/shared/docstring_parsers.py:_set_name_and_type"),
    (lambda p: p["fmt"] == "function" and p["field"] == "reread", "R-unaryop-default",
     "negative default under a doc-derived Union/str type stays an ast.UnaryOp object after round 1 and is rendered as '<ast.UnaryOp object at 0x...>' on round 2 (SyntaxError)", "cdd/shared/ast_utils.py:func_arg2param"),
    (lambda p: p["fmt"] == "argparse", "R-argparse-type-lossy", "argparse narrows/widens types and defaults again on the second round (Optional[List[..]], code defaults re-wrapped, doc-derived int)", "cdd/shared/ast_utils.py:param2argparse_param/infer_type_and_default"),
    (lambda p: p["fmt"] in ("class", "pydantic") and p["field"] == "typ", "R-class-untyped-infers-late", "an untyped attribute with None default gets its Optional type only on round 2", "cdd/class_/parse.py:class_"),
    (lambda p: p["fmt"] in ("class", "pydantic"), "R-class-listof-trigger", "'list of' in the description turns the type into list on round 1; round 2 re-quotes the string default as code / emit raises IndexError on an empty default", "cdd/docstring/utils/parse_utils.py:parse_adhoc_doc_for_typ / cdd/shared/ast_utils.py:_generic_param2ast"),
]


def _generalise(p):
    """NumPy style with an untyped parameter: the failure does not depend on the classes of the *other* parameters"""
    if p.get("fmt") == "docstring" and p.get("style") == "numpydoc" and (
        (p.get("field") == "parse" and p.get("observed") == "raises SyntaxError") or (p.get("field") == "default" and p.get("expected") == "str" and p.get("observed") == "str")
    ):
        p = {k: v for k, v in p.items() if k not in ("typ_classes", "default_kinds", "typ_class", "default_kind")}
        p["untyped_param"] = True
    return p


def _build():
    out = []
    for f in RAW:
        f = dict(f, pattern=_generalise(f["pattern"]))
        for pred, root, what, site in ROOTS:
            if pred(f["pattern"]):
                out.append(dict(f, what="[%s] %s" % (root, what), site=site))
                break
        else:
            raise AssertionError("no root cause for %r" % (f["pattern"],))
    return out


FINDINGS = _build() + [
    dict(id="C08-google-multiline-description-header-reflows", property="C08",
         pattern=dict(check="fixpoint", fmt="docstring", style="google", multiline_doc=True, field="header", round=2),
         what="[R-google-continuation-unindented] round 1 moves the unindented continuation line into the header; round 2 re-flows that header once more (whitespace / trailing newline)",
         site="cdd/shared/docstring_utils.py:emit_param_str (google branch)", example="{'alpha': {'typ': 'int', 'doc': 'the value\\nsecond line of it', 'default': 5}} through docstring-google twice"),
    dict(id="C08-double-quote-in-default-later-round-raises", property="C08",
         pattern=dict(check="fixpoint", quote_in_default=True, field="parse", observed="raises SyntaxError", fmt="docstring"),
         what="[R-default-quote] Google/NumPy docstring with a doc-derived type: the second round re-reads the unescaped \"say \"hi\"\" prose default and raises SyntaxError",
         site="cdd/shared/pure_utils.py:quote", example="{'alpha': {'typ': 'Optional[str]', 'doc': 'an integer count', 'default': 'say \"hi\"'}} through docstring-google twice"),
    dict(id="C08-trigger-word-recasts-empty-string-default", property="C08",
         pattern=dict(check="fixpoint", fmt="docstring", style={"in": ["google", "numpydoc"]}, field="default", default_kind="emptystr", expected="emptystr", observed="bool", typ_class="bool", round=2),
         what="[R-trigger-type-recasts-default] 'whether' in the description makes the emitter write the type bool; round 2 casts the empty-string default with bool('') -> False",
         site="cdd/docstring/utils/parse_utils.py:parse_adhoc_doc_for_typ + cdd/shared/defaults_utils.py:_parse_out_default_and_doc", example="{'alpha': {'typ': 'str', 'doc': 'whether to do it', 'default': ''}} through docstring-google twice"),
    dict(id="C08-trigger-word-int-cast-of-empty-string-default-raises", property="C08",
         pattern=dict(check="fixpoint", fmt="docstring", style={"in": ["google", "numpydoc"]}, field="parse", default_kinds="emptystr", observed="raises ValueError", typ_classes="int", round=2),
         what="[R-trigger-type-recasts-default] 'integer' in the description makes the emitter write the type int; round 2 casts the empty-string default with int('') and raises ValueError",
         site="cdd/docstring/utils/parse_utils.py:parse_adhoc_doc_for_typ + cdd/shared/defaults_utils.py:_parse_out_default_and_doc", example="{'alpha': {'typ': 'str', 'doc': 'an integer count', 'default': ''}} through docstring-google twice"),
    dict(id="C08-wrapped-type-line-indent-grows", property="C08",
         pattern=dict(check="fixpoint", fmt="function", style="rest", field="typ", expected="Literal", observed="changed_to_Literal", round=2),
         what="function without annotations, ReST: a ':type:' value wider than the wrap width is wrapped; the reader keeps the line break and the continuation indent inside the type string, "
              "and the emitter indents that continuation again on every round (collapsing the line break in _set_param_values is pinned by test_to_function_with_docstring_types)",
         site="cdd/shared/docstring_parsers.py:_set_param_values / cdd/shared/docstring_utils.py:emit_param_str (indent_all_but_first)",
         example="{'alpha': {'typ': \"Literal['member_one', ..., 'member_eight']\", 'doc': 'the value'}} through function (type_annotations=False) twice"),
    dict(id="C08-trigger-word-recasts-number-like-string-default", property="C08",
         pattern=dict(check="fixpoint", fmt="docstring", style={"in": ["google", "numpydoc"]}, field="default", default_kind="str", expected="str", observed="int", typ_class="int", round=2),
         what="[R-trigger-type-recasts-default] 'integer' in the description makes the emitter write the type int; round 2 casts the string default '5' to the int 5",
         site="cdd/docstring/utils/parse_utils.py:parse_adhoc_doc_for_typ + cdd/shared/defaults_utils.py:_parse_out_default_and_doc", example="{'alpha': {'typ': 'str', 'doc': 'an integer count', 'default': '5'}} through docstring-google twice"),
    dict(id="C08-optional-trigger-uncasts-int-default-under-float", property="C08",
         pattern=dict(check="fixpoint", fmt="docstring", style={"in": ["google", "numpydoc"]}, field="default", default_kind="float", expected="float", observed="int", typ_class="Optional", round=2),
         what="[R-trigger-type-recasts-default] a description starting with 'Optional' wraps the declared type float into Optional[float] on round 1 (where the int default 2 is still cast to 2.0 under the "
              "plain float); on round 2 the cast no longer applies under the Optional[...] type and the default written '2' comes back as the int 2",
         site="cdd/shared/docstring_parsers.py:_set_name_and_type_handle_doc_in_param + cdd/shared/defaults_utils.py:_parse_out_default_and_doc", example="{'alpha': {'typ': 'float', 'doc': 'Optional timeout in seconds', 'default': 2}} through docstring-google twice"),
    dict(id="C08-listof-trigger-evaluates-value-like-string-default", property="C08",
         pattern=dict(check="fixpoint", fmt={"in": ["class", "pydantic"]}, style="rest", field="default", default_kind="str", expected="str", observed={"in": ["int", "float", "bool"]}, typ_class="list", round=2),
         what="[R-class-listof-trigger] 'list of' in the description turns the type into list on round 1; a string default whose text reads as a number or a bool ('5', '0.5', 'True') is then rendered as code and comes back as that value on round 2",
         site="cdd/docstring/utils/parse_utils.py:parse_adhoc_doc_for_typ / cdd/shared/ast_utils.py:_generic_param2ast", example="{'alpha': {'typ': 'str', 'doc': 'list of names', 'default': '0.5'}} through class twice"),
    dict(id="C08-listof-trigger-respaces-hyphenated-default", property="C08",
         pattern=dict(check="fixpoint", fmt={"in": ["class", "pydantic"]}, field="default", expected="str", observed="str", typ_class="list", round=2),
         what="[R-class-listof-trigger] 'list of' in the description turns the type into list; the string default is then re-rendered as code on round 2 ('x-y' -> 'x - y', 'a b' -> code)",
         site="cdd/docstring/utils/parse_utils.py:parse_adhoc_doc_for_typ / cdd/shared/ast_utils.py:_generic_param2ast", example="{'alpha': {'typ': \"Literal['x-y', 'p q']\", 'doc': 'list of names', 'default': 'x-y'}} through class twice"),
    dict(id="C08-string-default-with-full-stop-keeps-shrinking", property="C08",
         pattern=dict(check="fixpoint", dot_in_default=True, field={"in": ["parse", "default"]}, observed={"in": ["raises SyntaxError", "str"]}, fmt={"in": ["docstring", "class", "pydantic"]}),
         what="[R-default-cut-at-dot] a string default containing a full stop is cut again on round 2 (doc-derived type paths read the prose default): 'a.b' -> 'a' or SyntaxError",
         site="cdd/shared/defaults_utils.py:extract_default", example="{'alpha': {'typ': 'str', 'doc': 'list of names', 'default': 'a.b'}} through class four times"),
    dict(id="C08-argparse-literal-special-members-with-doc-default", property="C08",
         pattern=dict(check="fixpoint", fmt="argparse", field="emit", observed="raises SyntaxError", round=2),
         what="argparse, Literal with members containing '-' or a space and a description that itself says 'defaults to 3': round 2 raises SyntaxError while building choices from the re-parsed text",
         site="cdd/shared/ast_utils.py:param2argparse_param", example="{'alpha': {'typ': \"Literal['x-y', 'p q']\", 'doc': 'the value, defaults to 3'}} through argparse twice"),
    dict(id="C08-function-undocumented-code-default-header-newline", property="C08",
         pattern=dict(check="fixpoint", fmt="function", field="header", observed="grew", type_annotations=False, typ_classes="none", default_kinds="code", doc_kinds="nodoc", round=2),
         what="function format without annotations, a single undocumented parameter with a code-quoted default (its dotted type is dropped on round 1): the docstring header gains one "
         "trailing newline on round 2 ('Summary line.' -> 'Summary line.\\n')",
         site="cdd/docstring/emit.py:docstring (re-flow of the original docstring when no parameter line is emitted)",
         example="{'alpha': {'typ': 'pkg.Kind', 'default': '```pkg.Kind.A```'}} through function(type_annotations=False, emit_as_kwonlyargs=True) four times"),
]
FIXED = [
    "fixed: property=C08 1666a8a NumPy style: typed parameter followed by an untyped one - the second parameter's text was re-flowed into the first one's default every round (continuation lines joined with newlines)",
    'fixed: property=C08 f4150fc Google style: the unindented continuation line moved into the header on round 1 and was re-flowed on round 2',
    'fixed: property=C08 fc46805 a string default containing a full stop was cut again on round 2 (doc-derived type paths)',
    'fixed: property=C08 26237d2 second round re-read the unescaped "say "hi"" prose default and raised SyntaxError',
    "fixed: property=C08 64ad734 function format, interface with an undocumented parameter (or a return entry): round 2 appended the text 'None' to the docstring header / return description ('Summary line.None'), growing every round",
]

# patterns of defects that have since been repaired in the repository (see FIXED): no longer known findings
FIXED_IDS = ['C08-docstring-default-26', 'C08-double-quote-in-default-later-round-raises', 'C08-google-multiline-description-header-reflows', 'C08-string-default-with-full-stop-keeps-shrinking']
FINDINGS = [f for f in FINDINGS if f["id"] not in FIXED_IDS]
