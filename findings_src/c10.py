FINDINGS = []
FIXED = [
    "fixed: property=C10 515ee11 cdd.function.parse.function / cdd.class_.parse.class_ (merge_inner_function) / doctrans on a function whose docstring documents only a subset of the signature: parameter order changed with PYTHONHASHSEED (set-difference iteration in merge_params)",
]
