FINDINGS = []
FIXED = [
    "fixed: property=C11 79c5c0f cdd.docstring.emit.docstring never terminated when the first line of the assembled docstring was whitespace-only (reached by doctrans round 2 and by an interface whose header is '   \\nText')",
]
