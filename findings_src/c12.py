FINDINGS = [
    dict(id="C12-differing-function-or-argparse-target-left-untouched", property="C12",
         pattern=dict(check="sync", clause="target_equivalent_to_truth", target={"in": ["function", "argparse_function"]}, initial={"in": ["different", "diff_default", "diff_extra", "diff_tail_missing", "diff_literal_short"]}),
         what="a function/method or argparse-function target that holds a different interface is reported 'unchanged' and left as it was: only class targets are really rewritten",
         site="cdd/shared/ast_utils.py:RewriteAtQuery.visit_FunctionDef (handles parameter replacement only; a whole FunctionDef at the searched location is never replaced). "
         "The obvious repair (replace the node when _location == search) makes four test_conformance tests fail, which pin the 'unchanged' outcome.",
         example="class file holds alpha: int = 5 (truth); meth.py holds C.method(self, zeta: int = 9) -> after sync --truth class, C.method still has zeta"),
    dict(id="C12-parameter-without-concrete-default-drifts-between-formats", property="C12",
         pattern=dict(check="sync", clause="target_equivalent_to_truth", field={"in": ["default", "typ"]}, default_kind={"in": ["ABSENT", "None"]}),
         what="a truth parameter without a concrete default (no default, or None) does not reach the other formats unchanged: argparse invents the zero value / drops None, "
         "a function truth turns 'no default' into None and the class target then gets Optional[...] - the per-format losses recorded under C02/C03 "
         "(R-argparse-zero-default, R-argparse-none-default, R-none-default-wraps-optional), seen through sync",
         site="cdd/argparse_function/utils/emit_utils.py:parse_out_param, cdd/shared/ast_utils.py:param2argparse_param, cdd/function/parse.py",
         example="truth class with alpha: float (no default): after sync the argparse target parses back with default 0.0"),
    dict(id="C12-numpydoc-method-target-descriptions-unreadable", property="C12",
         pattern=dict(check="sync", clause="target_equivalent_to_truth", target="function", initial="equivalent_numpydoc", field="doc", observed="lost"),
         what="[R-indented-numpydoc-unparsed] a method target whose (equivalent) docstring is in NumPy style - as doctrans leaves it - is left as it is by sync, and function.parse does not read an "
              "indented NumPy docstring: the target's descriptions do not come back (the per-format finding of C02, seen through sync)",
         site="cdd/function/parse.py:function / cdd/shared/docstring_parsers.py (NumPy scanner on indented text)",
         example="truth class, method target rendered with docstring_format='numpydoc'"),
    dict(id="C12-argparse-truth-invents-zero-default", property="C12",
         pattern=dict(check="sync", clause="target_equivalent_to_truth", truth="argparse_function", field="default", expected="float", observed="None", typ_class="float"),
         what="same root cause with argparse as the truth: the truth's own parse already carries the invented 0.0, which the function target then shows as None",
         site="cdd/argparse_function/utils/emit_utils.py:parse_out_param",
         example="truth argparse add_argument('--alpha', type=float, required=True) -> gold default 0.0"),
    dict(id="C12-created-method-repeats-the-tail-of-a-folded-description", property="C12",
         pattern=dict(check="sync", clause="target_equivalent_to_truth", truth="class", target="function", initial={"in": ["missing", "empty"]}, field="doc", observed="suffix_added"),
         what="[C15-footer-boundary] a class truth whose last ':cvar' description is folded over two lines (hand-wrapped or written by the emitters' word-wrap): the continuation line is taken "
              "for a footer of the original docstring, so the method that sync creates carries the whole description and then its second line once more",
         site="cdd/shared/docstring_utils.py:parse_docstring_into_header_args_footer (_get_token_last_idx ends the section at the end of the last parameter's first line), reached through "
              "cdd/docstring/emit.py with _internal['original_doc_str']",
         example="class ConfigClass with the docstring ':cvar alpha: the directory that every ... created on<newline>        demand and emptied again after each epoch has completed' and alpha: str = 'out'; sync --truth class with a missing method file"),
]
FIXED = [
    'fixed: property=C12 88502dc class truth documenting a return value, function target missing or empty: the created method had return_type as a parameter (one interface object shared by the emitters, mutated by the class emitter)',
    'fixed: property=C12 7d1086f truth documenting only some of its parameters: class/function parsers returned the documented ones first, argparse the declared order - equivalent targets were rewritten in another order and a class truth was itself rewritten (thorough tier)',
    "fixed: property=C12 161087c with any top-level function before class C, 'C.method' was not found: sync appended another copy of the method to the file on every run (non-idempotent, code outside the target changed), and --truth function died with AssertionError",
    "fixed: property=C12 4144ee5 a missing class file was created with the class named after the truth instead of --class-name (and appended to again on run 2 and 3); a missing function file raised TypeError after other files had been rewritten",
]
