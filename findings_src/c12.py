FINDINGS = [
    dict(id="C12-differing-function-or-argparse-target-left-untouched", property="C12",
         pattern=dict(check="sync", clause="target_equivalent_to_truth", target={"in": ["function", "argparse_function"]}, initial="different"),
         what="a function/method or argparse-function target that holds a different interface is reported 'unchanged' and left as it was: only class targets are really rewritten",
         site="cdd/shared/ast_utils.py:RewriteAtQuery.visit_FunctionDef (handles parameter replacement only; a whole FunctionDef at the searched location is never replaced). "
         "The obvious repair (replace the node when _location == search) makes four test_conformance tests fail, which pin the 'unchanged' outcome.",
         example="class file holds alpha: int = 5 (truth); meth.py holds C.method(self, zeta: int = 9) -> after sync --truth class, C.method still has zeta"),
]
FIXED = [
    "fixed: property=C12 161087c with any top-level function before class C, 'C.method' was not found: sync appended another copy of the method to the file on every run (non-idempotent, code outside the target changed), and --truth function died with AssertionError",
    "fixed: property=C12 4144ee5 a missing class file was created with the class named after the truth instead of --class-name (and appended to again on run 2 and 3); a missing function file raised TypeError after other files had been rewritten",
]
