FINDINGS = []
FIXED = [
    "fixed: property=C13 1252815 output def f(a, b='b') + input attribute a: float = 9.5: syncing any parameter of f overwrote b's default with 9.5 (defaults index not offset; parameter looked up by the input's name)",
    "fixed: property=C13 831f5cd syncing a function parameter (fin.a) onto a class attribute (Out.x) raised InvalidInput from black: an ast.arg was placed in the class body",
]
