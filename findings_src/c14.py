"""C14 known findings (bootstrapped with mc/kfgen.py, root causes assigned below)"""
RAW = [
 {
  "id": "C14-sqlalchemy-entry_keys-00",
  "property": "C14",
  "pattern": {
   "check": "wellformed",
   "parser": "sqlalchemy",
   "clause": "entry_keys",
   "source": "emitted",
   "key": "server_default",
   "style": "rest",
   "entry": "param"
  },
  "what": "",
  "site": "",
  "example": "{\"input\": {\"params\": [[\"alpha\", {\"doc\": \"the value\", \"typ\": \"int\"}]], \"returns\": None}, \"cfg\": None, \"expected\": \"only typ/doc/default/x_typ\", \"observed\": \"['server_default']\"}"
 },
 {
  "id": "C14-sqlalchemy_table-entry_keys-01",
  "property": "C14",
  "pattern": {
   "check": "wellformed",
   "parser": "sqlalchemy_table",
   "clause": "entry_keys",
   "source": "emitted",
   "key": "server_default",
   "style": "rest",
   "entry": "param"
  },
  "what": "",
  "site": "",
  "example": "{\"input\": {\"params\": [[\"alpha\", {\"doc\": \"the value\", \"typ\": \"int\"}]], \"returns\": None}, \"cfg\": None, \"expected\": \"only typ/doc/default/x_typ\", \"observed\": \"['server_default']\"}"
 },
 {
  "id": "C14-sqlalchemy_hybrid-entry_keys-02",
  "property": "C14",
  "pattern": {
   "check": "wellformed",
   "parser": "sqlalchemy_hybrid",
   "clause": "entry_keys",
   "source": "emitted",
   "key": "server_default",
   "style": "rest",
   "entry": "param"
  },
  "what": "",
  "site": "",
  "example": "{\"input\": {\"params\": [[\"alpha\", {\"doc\": \"the value\", \"typ\": \"int\"}]], \"returns\": None}, \"cfg\": None, \"expected\": \"only typ/doc/default/x_typ\", \"observed\": \"['server_default']\"}"
 },
 {
  "id": "C14-docstring-typ_not_expression-03",
  "property": "C14",
  "pattern": {
   "check": "wellformed",
   "parser": "docstring",
   "clause": "typ_not_expression",
   "source": "tokens",
   "typ_kind": "empty"
  },
  "what": "",
  "site": "",
  "example": "{\"input\": {\"kind\": \"doc_string\", \"string\": \":rtype:\"}, \"cfg\": None, \"expected\": \"parses as a Python expression\", \"observed\": \"''\"}"
 },
 {
  "id": "C14-function-typ_not_str-04",
  "property": "C14",
  "pattern": {
   "check": "wellformed",
   "parser": "function",
   "clause": "typ_not_str",
   "source": "emitted",
   "style": "numpydoc",
   "entry": "param"
  },
  "what": "",
  "site": "",
  "example": "{\"input\": {\"params\": [[\"alpha\", {\"doc\": \"the value\", \"typ\": \"int\"}]], \"returns\": None}, \"cfg\": None, \"expected\": \"str\", \"observed\": \"NoneType\"}"
 },
 {
  "id": "C14-argparse-entry_doc_not_str-05",
  "property": "C14",
  "pattern": {
   "check": "wellformed",
   "parser": "argparse",
   "clause": "entry_doc_not_str",
   "source": "emitted",
   "style": "rest",
   "entry": "param"
  },
  "what": "",
  "site": "",
  "example": "{\"input\": {\"params\": [[\"alpha\", {\"typ\": \"int\"}]], \"returns\": None}, \"cfg\": None, \"expected\": \"str\", \"observed\": \"NoneType\"}"
 },
 {
  "id": "C14-docstring-typ_not_expression-06",
  "property": "C14",
  "pattern": {
   "check": "wellformed",
   "parser": "docstring",
   "clause": "typ_not_expression",
   "source": "grammar",
   "typ_kind": "text",
   "style": "rest"
  },
  "what": "",
  "site": "",
  "example": "{\"input\": {\"kind\": \"doc_string\", \"string\": \":param args: positional\\n:type args: ```*args```\\n\\n:param kwargs: keywords\\n:type kwargs: ```**kwargs```\\n\"}, \"cfg\": None, \"expected\": \"parses as a Python expression\", \"observed\": \"'*args'\"}"
 },
 {
  "id": "C14-docstring-typ_not_expression-07",
  "property": "C14",
  "pattern": {
   "check": "wellformed",
   "parser": "docstring",
   "clause": "typ_not_expression",
   "source": "tokens",
   "typ_kind": "text"
  },
  "what": "",
  "site": "",
  "example": "{\"input\": {\"kind\": \"doc_string\", \"string\": \"\\n:type a:Args:\"}, \"cfg\": None, \"expected\": \"parses as a Python expression\", \"observed\": \"'Args:'\"}"
 },
 {
  "id": "C14-docstring-param_name_empty-08",
  "property": "C14",
  "pattern": {
   "check": "wellformed",
   "parser": "docstring",
   "clause": "param_name_empty",
   "source": "tokens"
  },
  "what": "",
  "site": "",
  "example": "{\"input\": {\"kind\": \"doc_string\", \"string\": \"\\nArgs:a (int): \"}, \"cfg\": None, \"expected\": \"non-empty str\", \"observed\": \"''\"}"
 },
 {
  "id": "C14-function-typ_not_str-09",
  "property": "C14",
  "pattern": {
   "check": "wellformed",
   "parser": "function",
   "clause": "typ_not_str",
   "source": "partial",
   "entry": "param"
  },
  "what": "",
  "site": "",
  "example": "{\"input\": {\"kind\": \"partial_one\", \"key\": {\"style\": \"rest\", \"documented\": [\"a\", \"b\"], \"header\": \"def f(a, b, c):\", \"indent\": False}, \"src\": \"def f(a, b, c):\\n    \\\"\\\"\\\"Summary.\\n\\n:param a: the a\\n:type a: ```int```\\n\\n:param b: the b\\n:type b: ```int```\\n\\\"\\\"\\\"\\n    return a\\n\"}, \"cfg\": None, \"expected\": \"str\", \"observed\": \"NoneType\"}"
 },
 {
  "id": "C14-function-signature_param_count-10",
  "property": "C14",
  "pattern": {
   "check": "wellformed",
   "parser": "function",
   "clause": "signature_param_count",
   "source": "partial",
   "param_kind": "vararg",
   "times": 0,
   "documented": False
  },
  "what": "",
  "site": "",
  "example": "{\"input\": {\"kind\": \"partial_one\", \"key\": {\"style\": \"rest\", \"documented\": [\"a\", \"b\"], \"header\": \"def f(a, b, c, *args, **kwargs):\", \"indent\": False}, \"src\": \"def f(a, b, c, *args, **kwargs):\\n    \\\"\\\"\\\"Summary.\\n\\n:param a: the a\\n:type a: ```int```\\n\\n:param b: the b\\n:type b: ```int```\\n\\\"\\\"\\\"\\n    return a\\n\"}, \"cfg\": None, \"expected\": \"args exactly once\", \"observed\": \"0 times in ['a', 'b', 'c']\"}"
 },
 {
  "id": "C14-function-signature_param_count-11",
  "property": "C14",
  "pattern": {
   "check": "wellformed",
   "parser": "function",
   "clause": "signature_param_count",
   "source": "partial",
   "param_kind": "kwarg",
   "times": 0,
   "documented": False
  },
  "what": "",
  "site": "",
  "example": "{\"input\": {\"kind\": \"partial_one\", \"key\": {\"style\": \"rest\", \"documented\": [\"a\", \"b\"], \"header\": \"def f(a, b, c, *args, **kwargs):\", \"indent\": False}, \"src\": \"def f(a, b, c, *args, **kwargs):\\n    \\\"\\\"\\\"Summary.\\n\\n:param a: the a\\n:type a: ```int```\\n\\n:param b: the b\\n:type b: ```int```\\n\\\"\\\"\\\"\\n    return a\\n\"}, \"cfg\": None, \"expected\": \"kwargs exactly once\", \"observed\": \"0 times in ['a', 'b', 'c']\"}"
 },
 {
  "id": "C14-function-signature_param_count-12",
  "property": "C14",
  "pattern": {
   "check": "wellformed",
   "parser": "function",
   "clause": "signature_param_count",
   "source": "partial",
   "param_kind": "vararg",
   "times": 0,
   "documented": True,
   "style": "numpydoc"
  },
  "what": "",
  "site": "",
  "example": "{\"input\": {\"kind\": \"partial_one\", \"key\": {\"style\": \"numpydoc\", \"documented\": [\"a\", \"b\", \"c\"], \"header\": \"def f(a, b, c, *args, **kwargs):\", \"indent\": True}, \"src\": \"def f(a, b, c, *args, **kwargs):\\n    \\\"\\\"\\\"\\n    Summary.\\n\\n    Parameters\\n    ----------\\n    a : int\\n        the a\\n    b : int\\n        the b\\n    c : int\\n        the c\\n    *args : tuple\\n        rest\\n    **kwargs : dict\\n        more\\n\\n    \\\"\\\"\\\"\\n    return a\\n\"}, \"cfg\": None, \"expected\": \"args exactly once\", \"observed\": \"0 times in ['a', 'b', 'c']\"}"
 },
 {
  "id": "C14-function-signature_param_count-13",
  "property": "C14",
  "pattern": {
   "check": "wellformed",
   "parser": "function",
   "clause": "signature_param_count",
   "source": "partial",
   "param_kind": "kwarg",
   "times": 0,
   "documented": True,
   "style": "numpydoc"
  },
  "what": "",
  "site": "",
  "example": "{\"input\": {\"kind\": \"partial_one\", \"key\": {\"style\": \"numpydoc\", \"documented\": [\"a\", \"b\", \"c\"], \"header\": \"def f(a, b, c, *args, **kwargs):\", \"indent\": True}, \"src\": \"def f(a, b, c, *args, **kwargs):\\n    \\\"\\\"\\\"\\n    Summary.\\n\\n    Parameters\\n    ----------\\n    a : int\\n        the a\\n    b : int\\n        the b\\n    c : int\\n        the c\\n    *args : tuple\\n        rest\\n    **kwargs : dict\\n        more\\n\\n    \\\"\\\"\\\"\\n    return a\\n\"}, \"cfg\": None, \"expected\": \"kwargs exactly once\", \"observed\": \"0 times in ['a', 'b', 'c']\"}"
 }
]

ROOTS = [
    (lambda p: p["clause"] == "entry_keys", "R-sqlalchemy-server-default-key", "the inferred primary key column comes back with a top-level 'server_default' key next to typ/doc (not inside x_typ)", "cdd/sqlalchemy/utils/parse_utils.py:column_call_to_param"),
    (lambda p: p["clause"] == "typ_not_expression" and p.get("typ_kind") == "empty", "R-empty-type", "':type a:' / ':rtype:' with nothing after it yields typ == '' (a string that is not an expression)", "cdd/shared/docstring_parsers.py:_parse_phase_rest/_set_param_values"),
    (lambda p: p["clause"] == "typ_not_expression", "R-type-absorbs-prose", "a ':rtype:'/':type:' line that is followed by further text (another section or prose) absorbs that text into the type string", "cdd/shared/docstring_parsers.py:_scan_phase_rest (a token's value runs to the next token)"),
    (lambda p: p["clause"] == "param_name_empty", "R-empty-name", "'Args:a (int): ' style inputs yield a parameter whose name is the empty string", "cdd/shared/docstring_parsers.py:_parse_phase_numpydoc_and_google._parse"),
    (lambda p: p["clause"] == "typ_not_str", "R-typ-none", "function.parse returns 'typ': None (key present, value not a string) for parameters whose type is neither annotated nor recovered from the docstring", "cdd/shared/ast_utils.py:func_arg2param / cdd/function/parse.py"),
    (lambda p: p["clause"] == "entry_doc_not_str", "R-argparse-doc-none", "argparse parser returns 'doc': None for an option without help text", "cdd/argparse_function/utils/emit_utils.py:parse_out_param"),
    (lambda p: p["clause"] == "signature_param_count" and p.get("documented") is False, "R-undocumented-varargs-dropped", "*args / **kwargs of the signature do not appear in the result unless the docstring documents them", "cdd/function/parse.py:function (only args/kwonlyargs are merged; vararg only via the documented kwargs special case)"),
    (lambda p: p["clause"] == "signature_param_count", "R-numpydoc-varargs-dropped", "NumPy-style '*args : tuple' / '**kwargs : dict' entries are not recovered, so the variadic parameters are missing although documented", "cdd/shared/docstring_parsers.py:_parse_phase_numpydoc_and_google + cdd/function/parse.py"),
]


def _build():
    out = []
    for f in RAW:
        for pred, root, what, site in ROOTS:
            if pred(f["pattern"]):
                out.append(dict(f, what="[%s] %s" % (root, what), site=site))
                break
        else:
            raise AssertionError("no root cause for %r" % (f["pattern"],))
    return out


FINDINGS = _build() + [
    dict(id="C14-sqlalchemy-unknown-column-keywords-copied-into-entry", property="C14",
         pattern=dict(check="wellformed", parser={"in": ["sqlalchemy", "sqlalchemy_hybrid", "sqlalchemy_table"]}, source="sqlalchemy_layout", clause="entry_keys", entry="param", key={"in": ["index", "unique"]}),
         what="the SQLAlchemy parsers copy Column keywords they do not interpret (index=, unique=) into the parameter entry as extra keys (the JSON-schema parser does the same with unknown schema keywords)",
         site="cdd/sqlalchemy/utils/parse_utils.py:column_call_to_param (`dict(map(lambda k: (k.arg, get_value(k.value)), call.keywords))`)",
         example="owner_id = Column(Integer, unique=True, index=True) -> params['owner_id'] has the keys 'unique' and 'index'"),
    dict(id="C14-function-without-docstring-has-no-doc-key", property="C14",
         pattern=dict(check="wellformed", parser={"in": ["function", "function_infer"]}, source="layout", clause="doc_missing"),
         what="function.parse of a function without a docstring returns an interface without the 'doc' key (the no-docstring branch builds the dict by hand); pinned by test_from_function, so not repaired",
         site="cdd/function/parse.py:function (`if doc_str is None:`)", example="def f(a):\n    x = 1\n    return a"),
    dict(id="C14-layout-untyped-parameter-typ-none", property="C14",
         pattern=dict(check="wellformed", parser={"in": ["function", "function_infer"]}, source="layout", clause="typ_not_str", entry="param", has_default=False),
         what="[R-typ-none] 'typ': None for an unannotated, undocumented parameter (same root cause as the partial-signature family), seen in the layout family",
         site="cdd/function/parse.py:function / cdd/shared/ast_utils.py:func_arg2param", example="def f(a):\n    x = 1\n    return a"),
    dict(id="C14-layout-argparse-doc-none", property="C14",
         pattern=dict(check="wellformed", parser="argparse", source="layout", clause="entry_doc_not_str"),
         what="[R-argparse-doc-none] argparse parser returns 'doc': None for an option without help text (layout family: nargs/action/count options, options without help)",
         site="cdd/argparse_function/utils/emit_utils.py:parse_out_param", example="argument_parser.add_argument('--count', action='count', default=0)"),
    dict(id="C14-live-function-untyped-parameter-typ-none", property="C14",
         pattern=dict(check="wellformed", parser="function_live", source="live", clause="typ_not_str", entry="param", has_default=False),
         what="[R-typ-none] the same through the inspect path: function.parse of a live function returns 'typ': None for a parameter that is neither annotated nor given a default",
         site="cdd/function/parse.py:function (FunctionType branch) / cdd/shared/parse/utils/parser_utils.py:_inspect", example="def f(a, b, c): ... imported from a module, cdd.function.parse.function(f)"),
    dict(id="C14-live-class-merged-static-untyped-parameter-typ-none", property="C14",
         pattern=dict(check="wellformed", parser="class_live", source="live", clause="typ_not_str", entry="param", has_default=False),
         what="[R-typ-none] a live class merged with a receiver-less inner function: the undocumented, unannotated first parameter comes back with 'typ': None",
         site="cdd/class_/parse.py:_merge_inner_function / cdd/function/parse.py", example="class Cfg: a: int = 1; @staticmethod def create(c, d=2) ...; class_(Cfg, merge_inner_function='create')"),
    dict(id="C14-live-function-undocumented-varargs-dropped", property="C14",
         pattern=dict(check="wellformed", parser="function_live", source="live", clause="signature_param_count", documented=False, param_kind={"in": ["vararg", "kwarg"]}, times=0),
         what="[R-undocumented-varargs-dropped] the same through the inspect path: *args / **kwargs of a live function's signature are missing from the result unless documented",
         site="cdd/shared/parse/utils/parser_utils.py:_inspect", example="def f(a, b, c, *args, **kwargs): ... imported from a module, cdd.function.parse.function(f)"),
    dict(id="C14-json-schema-unknown-keywords-copied-into-entry", property="C14",
         pattern=dict(check="wellformed", parser="json_schema", clause="entry_keys", entry="param", source="handwritten",
                      key={"in": ["enum", "format", "items", "maxLength", "minimum", "examples", "title"]}),
         what="the JSON-schema parser renames description/type and converts pattern/anyOf/$ref, and leaves every other keyword of the property (enum, format, items, bounds, title, examples) "
              "in the parameter entry as an extra key",
         site="cdd/json_schema/utils/parse_utils.py:json_schema_property_to_param (mutates and returns the property dict itself)",
         example="{'properties': {'alpha': {'description': 'the value', 'type': 'string', 'format': 'date-time'}}} -> params['alpha'] == {'doc': 'the value', 'typ': 'str', 'format': 'date-time'}"),
    dict(id="C14-json-schema-empty-pattern-left-in-entry", property="C14",
         pattern=dict(check="wellformed", parser="json_schema", clause="entry_keys", entry="param", source="handwritten", key="pattern", js_pattern="empty"),
         what="same pass-through for an empty 'pattern' string (a non-empty pattern is always converted into a Literal type and removed)",
         site="cdd/json_schema/utils/parse_utils.py:json_schema_property_to_param (`if _param.get('pattern')`)",
         example="{'properties': {'alpha': {'type': 'string', 'pattern': ''}}} -> params['alpha'] == {'typ': 'str', 'pattern': ''}"),
]
FIXED = [
    "fixed: property=C14 6feeb94 argparse parser: add_argument('-n', '--name') returned a parameter with the empty name (and a positional 'name' the name 'me'): two characters were cut off the first option string",
    "fixed: property=C14 520cde0 live function/class (inspect path): a builtin annotation came back as the type \"<class 'int'>\" (not an expression), 'str' as 'r'",
    "fixed: property=C14 4aca4fd live class without a docstring: the result had no 'doc' key (and no 'returns')",
    "fixed: property=C14 b0d6833 function parser: parameters before the positional-only marker were missing from the result unless documented (def f(a, b=2, /, c=3) -> only c, and c got the default None); a positional-only receiver (def f(self, /, a)) was taken for an ordinary parameter",
    "fixed: property=C14 4849e1b NumPy docstring with a named return ('result : Dict[str, int]' under Returns): the whole line became the return type, which is not a Python expression",
]
