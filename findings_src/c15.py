FINDINGS = [
    dict(id="C15-split-reindents-indented-docstrings", property="C15",
         pattern=dict(check="prose", clause="split_not_exact", kind="reindent_exact", indent={"in": [4, 8]}),
         what="for an indented docstring parse_docstring_into_header_args_footer re-indents the section it returns (by the indentation of its second argument), so the three parts "
         "concatenate to the original only after removing exactly that indentation from every line of the section part (checked exactly: any other "
         "difference is reported); at indentation 0 the identity is exact",
         site="cdd/shared/docstring_utils.py:parse_docstring_into_header_args_footer (indent of current_doc_str applied via ensure_doc_args_whence_original / indent handling)",
         example="a 4-space indented ReST docstring d: h + a + f differs from d only in the indentation of the parameter lines"),
    dict(id="C15-rest-footer-absorbed-into-return-type", property="C15",
         pattern=dict(check="prose", clause="prose_absorbed", style="rest", entry="return", field="typ", prose="footer"),
         what="ReST: prose that follows the ':rtype:' line (notes, doctest, example footer) becomes part of the return type string - as C14 R-type-absorbs-prose",
         site="cdd/shared/docstring_parsers.py:_scan_phase_rest (a token's value runs to the next token or the end of the docstring)",
         example="':rtype: ```str```\\n\\nNotes about the usage' -> returns.return_type.typ == 'str\\n\\nNotes about the usage...'"),
    dict(id="C15-footer-boundary-too-late", property="C15",
         pattern=dict(check="prose", clause="split_boundary", boundary="section_end", delta_lines={"in": [1, 2]}, mid_line=False),
         what="whenever a prose footer (notes, doctest, example) follows the parameter/return section, at least its first line is returned as part of the section: the end "
         "of the section is taken to be the end of the *following* paragraph line, not of the last parameter/return line (all 3 styles, every indentation)",
         site="cdd/shared/docstring_utils.py:_get_token_last_idx/_find_end_of_args_returns (multi-line continuation heuristics run past the blank line)",
         example="'...:rtype: ```str```\\n\\nNotes about the usage\\nthat span two lines.' -> section ends after 'Notes about the usage\\n', footer == 'that span two lines.'"),
    dict(id="C15-footer-boundary-too-early", property="C15",
         pattern=dict(check="prose", clause="split_boundary", boundary="section_end", delta_lines=-2, mid_line=True, style="numpydoc"),
         what="Google/NumPy: for some separator/trailing-whitespace combinations the last line(s) of the Returns block ('str: the result' / 'the result') are cut off into the footer",
         site="cdd/shared/docstring_utils.py:_get_token_last_idx / _get_token_last_idx_if_no_next_token",
         example="NumPy docstring ending '...Returns\\n-------\\nstr\\n    the result' without footer: footer == '    the result' (or more)"),
    dict(id="C15-footerless-boundary-one-line-early", property="C15",
         pattern=dict(check="prose", clause="split_boundary", boundary="section_end", delta_lines=-1, mid_line=False, style={"in": ["google", "numpydoc"]}, footer="none"),
         what="Google/NumPy style without footer, some indentation/trailing-whitespace combinations: the last line of the Returns block is returned as the footer",
         site="cdd/shared/docstring_utils.py:_get_token_last_idx",
         example="Google docstring ending '  Returns:\\n    str: the result' -> footer == '    str: the result'"),
    dict(id="C15-footer-after-last-type-line-makes-parser-raise", property="C15",
         pattern=dict(check="prose", clause={"in": ["parse_raises", "function_conversion_raises"]}, section="params_only", exc="SyntaxError", style={"in": ["rest", "numpydoc"]}),
         what="a docstring that documents parameters only (no return entry) and continues with a prose footer: the last parameter's type absorbs the footer text "
         "(ReST: everything after ':type beta: ```int```'; NumPy through function.parse / with an 'Example::' footer) and the parser then raises SyntaxError trying to "
         "read that text as a type expression - same root as C15-rest-footer-absorbed-into-return-type / C14 R-type-absorbs-prose, but here the call fails",
         site="cdd/shared/docstring_parsers.py:_scan_phase_rest / _set_name_and_type (ast.parse of the absorbed text)",
         example="'Summary.\\n\\n:param beta: the beta\\n:type beta: ```int```\\n\\nNotes about the usage' -> cdd.docstring.parse.docstring raises SyntaxError"),
    dict(id="C15-numpy-params-only-boundary-one-line-early", property="C15",
         pattern=dict(check="prose", clause="split_boundary", boundary="section_end", delta_lines=-1, mid_line=False, style="numpydoc", section="params_only"),
         what="NumPy Parameters section without Returns, followed by a footer: the description line of the last parameter is returned as part of the footer",
         site="cdd/shared/docstring_utils.py:_get_token_last_idx",
         example="'...beta : int\\n    the beta. Defaults to 5\\n\\n>>> thing(1, 2)' -> section ends before '    the beta...'"),
]
FIXED = []
