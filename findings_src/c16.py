FINDINGS = [
    dict(id="C16-bulk-schema-key-title-cased", property="C16",
         pattern=dict(check="openapi", via="pipeline", clause="dangling_ref", ref_kind="schemas", name_class="changed_by_title"),
         what="openapi_bulk stores a model's schema under name.replace('_tbl', '').title() while the routes refer to it by the model name, so every $ref to the schema "
         "dangles for names that str.title() changes (UserProfile -> Userprofile, user_profile -> User_Profile, config_tbl -> Config, HTTPLog -> Httplog)",
         site="cdd/compound/openapi/gen_openapi.py:openapi_bulk (schema key derivation)",
         example="model class UserProfile, crud 'R': paths refer to #/components/schemas/UserProfile, components.schemas has 'Userprofile'"),
    dict(id="C16-bulk-schema-key-title-cased-operations-name-undefined-schema", property="C16",
         pattern=dict(check="openapi", via="pipeline", clause="operation_describes_another_model", name_class="changed_by_title", schema_defined=False, names_error_schema=False),
         what="the same root cause seen from the operations: the request body and the success responses of such a model name a schema key the document does not define, "
              "so they do not describe the model (C16-bulk-schema-key-title-cased)",
         site="cdd/compound/openapi/gen_openapi.py:openapi_bulk (schema keys are title-cased, the routes' references are not)",
         example="model UserProfile, CRUD 'C': post /api/userprofile requestBody -> UserProfileBody -> #/components/schemas/UserProfile, defined key is 'Userprofile'"),
    dict(id="C16-inferred-id-leaks-ast-call", property="C16",
         pattern=dict(check="openapi", via="pipeline", clause="not_serialisable", pk_has_id=True),
         what="a model whose primary key is the inferred `id = Column(Integer, primary_key=True, server_default=Identity())` puts the parsed server_default (an ast.Call object) "
         "into the schema: the document is not JSON-serialisable (same root as C14 R-sqlalchemy-server-default-key)",
         site="cdd/sqlalchemy/utils/parse_utils.py:column_call_to_param ('server_default' kept as an AST node at the top level of the parameter)",
         example="class Config(Base) with columns count, label and the inferred id -> json.dumps(openapi_bulk(...)) raises TypeError: Object of type Call is not JSON serializable"),
]
FIXED = [
    "fixed: property=C16 4f81ca7 two models whose routes go into the same routes file: the second model's routes were glued onto the last line of the first block and its paths were missing from the openapi_bulk document",
]
