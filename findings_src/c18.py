FINDINGS = []
FIXED = [
    "fixed: property=C18 cc3010b importing cdd.shared.parse.utils.parser_utils / cdd.compound.gen / cdd.compound.gen_utils / cdd.compound.openapi.gen_routes / cdd.sqlalchemy.parse first raised ImportError (cycle via docstring_parsers' from-import)",
    "fixed: property=C18 e02f0c6 importing cdd.sqlalchemy.utils.emit_utils / cdd.compound.openapi.gen_openapi first raised AttributeError (cycle via shared_utils' side-effect import)",
]
