FINDINGS = [
    dict(id="C19-live-class-mapping-to-function-keyerror", property="C19",
         pattern=dict(check="gen", clause="gen_raises", emit="function", exc="KeyError", input_as="module_symbol"),
         what="gen --input-mapping module.SYMBOL (a dict of live classes) --emit function raises KeyError: 'type': the inspect-based class parser deletes the 'type' key that "
              "function.emit reads (the AST-based class parser keeps 'type': 'static'); pinned by four in-memory parse tests, so not repaired",
         site="cdd/shared/parse/utils/parser_utils.py:_inspect (del ir['type']) / cdd/function/emit.py:function", example="MAPPING = {'Alpha': Alpha} in an importable module; gen --input-mapping mod.MAPPING --parse infer --emit function"),
    dict(id="C19-argparse-drops-none-default", property="C19",
         pattern=dict(check="gen", clause="symbol_interface", field="default", expected="None", observed="ABSENT", typ_class="Optional"),
         what="a symbol generated as (or from) an argparse function loses the None default of an Optional parameter - the per-format loss recorded as C02 R-argparse-none-default, seen through gen",
         site="cdd/shared/ast_utils.py:param2argparse_param / cdd/argparse_function/utils/emit_utils.py:parse_out_param",
         example="class Beta with names: Optional[List[str]] = None, gen --emit argparse: the generated function parses back without a default for names"),
    dict(id="C19-sqlalchemy-input-to-json-schema-identity-call-not-serialisable", property="C19",
         pattern=dict(check="gen", clause="gen_raises", emit="json_schema", input_kinds="sqlalchemy", exc="TypeError"),
         what="[C16-inferred-id-leaks-ast-call] a declarative model whose primary key is the generated `id` column carries server_default=Identity() as an ast.Call in the interface; "
              "gen --emit json_schema then dies in json.dump ('Object of type Call is not JSON serializable') and leaves no output",
         site="cdd/sqlalchemy/utils/parse_utils.py (keeps the Call node) / cdd/compound/gen.py (json dump of the interface)",
         example="class Alpha(Base): n = Column(Integer, default=5, ...); id = Column(Integer, primary_key=True, server_default=Identity()); gen --parse sqlalchemy --emit json_schema"),
]
FIXED = [
    "fixed: property=C19 cf13eae gen with two or more inferred import lines, or --imports-from-file with two or more imports, joined them on one line and died with SyntaxError",
    "fixed: property=C19 f31c3ca gen --emit-and-infer-imports on a symbol that needs no import (class with one int attribute) raised TypeError: 'NoneType' object is not iterable",
    "fixed: property=C19 0a890e3 gen --emit function raised TypeError (missing function_type) for every input",
    "fixed: property=C19 f17fd95 gen --emit pydantic raised KeyError: 'pydantic' for every input",
    "fixed: property=C19 39ed376 gen --parse argparse (or infer on an argparse function) raised ModuleNotFoundError: cdd.argparse / cdd.argparse_ast",
    "fixed: property=C19 fc7fbdf gen --parse argparse --emit json_schema|sqlalchemy* raised KeyError: 'returns' (argparse parser omitted the required key)",
    "fixed: property=C19 73b36df gen on a JSON-schema file alpha.json: __all__ listed 'alpha.jsonConfig' while the module defined alphajsonConfig",
    "fixed: property=C19 5891ba1 gen --emit sqlalchemy|sqlalchemy_table|sqlalchemy_hybrid with --name-tpl '{name}Config' defined Alpha although __all__ listed AlphaConfig",
]
