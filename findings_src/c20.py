FINDINGS = [
    dict(id="C20-parent-of-output-directory-gets-init-file", property="C20",
         pattern=dict(check="exmod", clause="created_outside_output_dir", where="elsewhere", out_is_target=True, dry_run=False),
         what="when the output directory is named like the target module (--target-module-name gold, -o .../gold) a real run creates (or appends to) __init__.py in the *parent* of the output "
              "directory: a file outside the given output directory (the layout the repository's own exmod tests use)",
         site="cdd/compound/exmod_utils.py:emit_file_on_hierarchy (`open(path.join(path.dirname(mod_path), '__init__.py'), 'a')`)",
         example="exmod -m c20pkg --emit class --target-module-name gold -o <work>/gold  ->  <work>/__init__.py is created"),
    dict(id="C20-reexported-symbols-bypass-blacklist", property="C20",
         pattern=dict(check="exmod", clause="filtered_module_emitted", filter={"in": ["blacklist_alpha", "blacklist_sub"]}),
         what="the blacklist/whitelist gate is applied to the package directory being traversed only; a module (pkg.alpha) or sub-package (pkg.sub) whose symbols are re-exported "
         "through the parent __init__ is still generated although it is blacklisted",
         site="cdd/compound/exmod.py:exmod_single_folder (proceed is computed from the folder's mod_path; the __init__ import traversal below it is not filtered)",
         example="package c20pkg re-exporting Alpha from c20pkg.alpha; exmod -m c20pkg --blacklist c20pkg.alpha -o out writes out/alpha.py"),
    dict(id="C20-json-schema-emit-unsupported", property="C20",
         pattern=dict(check="exmod", clause="exmod_raises", emit="json_schema", dry_run=False, exc="TypeError"),
         what="exmod --emit json_schema (an offered choice) raises TypeError: json_schema() got an unexpected keyword argument 'json_schema_name' on every real run "
         "(nothing is written outside the output directory; with the right keyword it would fail later because a dict is not a Module)",
         site="cdd/compound/exmod_utils.py:_emit_symbol",
         example="exmod -m c20pkg --emit json_schema -o out"),
    dict(id="C20-table-emit-of-a-declarative-model-all-names-the-class-binding-is-the-table-name", property="C20",
         pattern=dict(check="exmod", clause="all_names_unbound", layout="sql_model", emit={"in": ["sqlalchemy_table", "sqlalchemy_hybrid"]}, dry_run=False),
         what="a module whose class is a declarative SQLAlchemy model with a __tablename__ of its own, exposed with a Table-based emit kind: the generated file binds the table to the *table name* "
              "(Alpha_rows = Table('Alpha', ...)) while its __all__ lists the class name (Alpha), which the file does not define",
         site="cdd/sqlalchemy/parse.py (the interface of a declarative model is named after __tablename__) / cdd/compound/exmod_utils.py:_emit_symbol (__all__ built from the symbol name)",
         example="c20pkg/alpha.py: class Alpha(Base): __tablename__ = 'Alpha_rows'; label = Column(String, primary_key=True); exmod -m c20pkg --emit sqlalchemy_table"),
]
FIXED = [
    'fixed: property=C20 422f48f exmod --extra-module <m> raised AssertionError on every run, dry or real (the list collected by argparse was passed where one module name is expected); nothing was written',
    "fixed: property=C20 861834f exmod --dry-run with a SQLAlchemy emit kind and --emit-sqlalchemy-submodule created out/sqlalchemy_mod/ with three files (or died with FileNotFoundError when out did not exist)",
    "fixed: property=C20 6d40744 exmod --emit sqlalchemy and --emit pydantic raised TypeError (unexpected keyword argument 'sqlalchemy_name' / 'pydantic_name') on every real run",
]
