"""
Alphabets (literal lists, printed into the evidence) and the IR space I(k) built from them.

A *kind* is (type shape, default kind, description kind); a parameter is a kind instantiated at a position with a
fixed name.  Everything here is deterministic and ordered simplest-first.
"""
import itertools
from collections import OrderedDict

NoneStr = "```(None)```"  # == cdd.shared.ast_utils.NoneStr (asserted in oracle.selfcheck)

NAMES = ["alpha", "beta", "gamma", "delta", "epsilon", "zeta", "eta", "theta"]
# name sets whose members contain one another (an earlier name inside a later one, and the other way round): text-level matching of names
ALT_NAMES = [["rate", "learning_rate", "rate_decay"], ["batch_size", "size", "s"], ["größe", "température", "naïve_λ"]]
# a name the library takes for **kwargs, in a position that is not the last (used by C04 only: every other check would only re-report the convention)
KWARGS_NAMES = ["loader_kwargs", "batch", "zeta"]

# ---- type shapes -----------------------------------------------------------------------------------------
TYPES = [
    "int",
    "float",
    "str",
    "bool",
    "Optional[int]",
    "Optional[float]",
    "Optional[str]",
    "Optional[bool]",
    "Literal['a', 'b']",
    "Literal['a', 'b', 'c']",
    "Literal['x-y', 'p q']",
    "Literal[1, 2]",
    "Literal['a']",
    # a type whose rendered line is wider than the wrap width
    "Literal['member_one', 'member_two', 'member_three', 'member_four', 'member_five', 'member_six', 'member_seven', 'member_eight']",
    "List[str]",
    "List[int]",
    "Union[int, str]",
    "pkg.Kind",
    "dict",
    "list",
    # deeper nesting
    "Optional[List[Optional[int]]]",
    "Dict[str, List[int]]",
    "Union[int, str, float]",
    "Optional[Union[float, str]]",  # str only at nesting depth two
]


def base_of(t):
    if t is None:
        return None
    if t.startswith("Optional["):
        return t[len("Optional[") : -1]
    return t


def defaults_for(t):
    """[(default kind, value)] legal for a type shape; first entry is always 'absent'"""
    d = [("absent", None)]
    b = base_of(t)
    if b in ("int",) or t == "Union[int, str]":
        d += [("int", 5), ("zero", 0), ("negint", -5), ("bigint", 1234), ("hugeint", 10 ** 20)]
    if b == "float":
        d += [("float", 0.5), ("negfloat", -0.5), ("intfloat", 2.0), ("smallfloat", 1e-07), ("hugefloat", 1e16), ("int_under_float", 2)]
    if b == "str":
        d += [("str", "a")]
    if t == "Literal[1, 2]":
        d += [("int", 2)]
    elif t and t.startswith("Literal["):
        d += [("str", "x-y" if "x-y" in t else "member_one" if "member_one" in t else "a")]
    if b == "str" or t == "Optional[Union[float, str]]":
        # strings whose bare text reads as a value of another type
        d += [("strfloat", "0.5"), ("strdigits", "5"), ("strtrue", "True")]
    if b == "str":
        d += [("strspace", "a b"), ("emptystr", ""), ("strdot", "a.b"), ("strquote", 'say "hi"'), ("strapos_dot", "don't panic. retry"), ("strquote_dot", 'say "hi". bye')]
    if b == "bool":
        d += [("true", True), ("false", False)]
    if t and t.startswith("Optional["):
        d += [("none", NoneStr)]
    if t in ("List[str]",):
        d += [("code", "```['a', 'b']```")]
    if t in ("List[int]", "list"):
        d += [("code", "```[1, 2]```")]
    if t == "dict":
        d += [("code", "```{'k': 1}```")]
    if t == "Dict[str, List[int]]":
        d += [("code", "```{'k': [1, 2]}```")]
    if t == "Optional[List[Optional[int]]]":
        d += [("code", "```[1, None]```")]
    if t == "pkg.Kind":
        d += [("code", "```pkg.Kind.A```")]
    return d


DOCS = [
    ("plain", "the value"),
    ("stop", "the value."),
    ("two", "the value. It is used twice"),
    ("long", "the value that is described at considerable length so that the emitted line certainly exceeds the wrap width of one hundred"),
    ("colon", "the value: see below"),
    ("multiline", "the value\nsecond line of it"),
    ("tick", "use `x` here"),
    ("unicode", "die Größe – naïve ☃ value"),
    ("nodoc", None),
]
DOCS_BASIC = DOCS[:1]


def make_param(t, dk, dv, ck, cv):
    p = OrderedDict()
    if cv is not None:
        p["doc"] = cv
    if t is not None:
        p["typ"] = t
    if dk != "absent":
        p["default"] = dv
    return p


def sigma_param(docs=DOCS, types=TYPES):
    """Full parameter-kind alphabet"""
    out = []
    for t in types:
        for dk, dv in defaults_for(t):
            for ck, cv in docs:
                out.append(((t, dk, ck), make_param(t, dk, dv, ck, cv)))
    return out


# ~10 kinds chosen to collide (default-carrying vs default-less neighbours)
SIGMA_INT_KEYS = [
    ("int", "absent", "plain"),
    ("str", "absent", "plain"),
    ("int", "int", "plain"),
    ("int", "negint", "plain"),
    ("str", "str", "plain"),
    ("Optional[str]", "none", "plain"),
    ("bool", "false", "plain"),
    ("Literal['a', 'b']", "str", "plain"),
    ("List[str]", "absent", "plain"),
    ("float", "float", "plain"),
    ("Optional[int]", "absent", "plain"),
]


def sigma_int():
    table = dict(sigma_param())
    return [(k, table[k]) for k in SIGMA_INT_KEYS]


RETURNS = [
    ("noret", None),
    ("ret", OrderedDict((("doc", "the result"), ("typ", "int")))),
    ("retdef", OrderedDict((("doc", "the result"), ("typ", "int"), ("default", 7)))),
    ("retstr", OrderedDict((("doc", "the result"), ("typ", "str")))),
    ("retlong", OrderedDict((("doc", "the result that is described at considerable length so that the emitted line certainly exceeds the wrap width of one hundred columns"), ("typ", "int")))),
]

# a return entry with only a description / only a type (used by edge_space)
RETURNS_PARTIAL = [("retdoconly", OrderedDict((("doc", "the result"),))), ("rettyponly", OrderedDict((("typ", "int"),)))]

HEADERS = [("one", "Summary line."), ("two", "Summary line.\n\nLonger description of the thing\nover two lines."), ("empty", "")]


def mk_ir(params, ret=None, doc="Summary line.", name=None):
    """params: list of (name, paramdict)"""
    from copy import deepcopy

    return {
        "name": name,
        "type": "static",
        "doc": doc,
        "params": OrderedDict((n, deepcopy(p)) for n, p in params),
        "returns": None if ret is None else OrderedDict((("return_type", deepcopy(ret)),)),
    }


def ir_space(k1_alpha, kn_alpha, max_k, returns_1=RETURNS, returns_n=RETURNS[:2], headers=HEADERS[:1], names1=("alpha",), alt_names=ALT_NAMES, wide=True, edges=False):
    """
    I(1) = every kind in k1_alpha x returns_1 x headers x names1 ; I(k), 2<=k<=max_k = all ordered k-tuples over kn_alpha x returns_n.
    Yields (case_key, ir) where case_key is a JSON-able description: {"kinds": [...], "ret": .., "hdr": .., "names": [...]}
    """
    for (kind, p), (rk, r), (hk, h), nm in itertools.product(k1_alpha, returns_1, headers, names1):
        yield dict(kinds=[list(kind)], ret=rk, hdr=hk, names=[nm]), mk_ir([(nm, p)], r, h)
    for k in range(2, max_k + 1):
        for tup in itertools.product(kn_alpha, repeat=k):
            for rk, r in returns_n:
                names = NAMES[:k]
                yield (
                    dict(kinds=[list(kind) for kind, _ in tup], ret=rk, hdr="one", names=names),
                    mk_ir([(n, p) for n, (_, p) in zip(names, tup)], r, HEADERS[0][1]),
                )
    # the same tuples again under names that contain one another: all pairs, and all triples over the first three kinds
    for alt in alt_names:
        for k in range(2, min(max_k, 3) + 1):
            for tup in itertools.product(kn_alpha if k == 2 else kn_alpha[:3], repeat=k):
                rk, r = returns_n[0]
                yield (
                    dict(kinds=[list(kind) for kind, _ in tup], ret=rk, hdr="one", names=alt[:k]),
                    mk_ir([(n, p) for n, (_, p) in zip(alt[:k], tup)], r, HEADERS[0][1]),
                )
    if wide and max_k >= 2:
        yield from wide_space(kn_alpha)
    if edges:
        yield from edge_space(kn_alpha)


def edge_space(kn_alpha, headers=None):
    """
    Counts at the edge: interfaces with NO parameter x every return kind (also the partial ones) x every header, and interfaces with one
    parameter (first three kinds of kn_alpha) x the partial return kinds x every header.
    """
    headers = HEADERS if headers is None else headers
    for (rk, r), (hk, h) in itertools.product(RETURNS + RETURNS_PARTIAL, headers):
        yield dict(kinds=[], ret=rk, hdr=hk, names=[]), mk_ir([], r, h)
    for (kind, p), (rk, r), (hk, h) in itertools.product(kn_alpha[:3], RETURNS_PARTIAL, headers):
        yield dict(kinds=[list(kind)], ret=rk, hdr=hk, names=["alpha"]), mk_ir([("alpha", p)], r, h)


def partial_return(ir):
    """None, or which half a return entry consists of ('doconly' / 'typonly'): a signature feature"""
    r = (ir.get("returns") or {}).get("return_type")
    if not r:
        return None
    return "doconly" if "typ" not in r and r.get("doc") else "typonly" if "typ" in r and not r.get("doc") else None


def wide_space(kn_alpha, ks=(4, 5, 8)):
    """
    Interfaces of 4, 5 and 8 parameters (the product over kn_alpha is out of reach there): (a) one departure from the uniform interface - every kind
    of kn_alpha at every position among kn_alpha[0] neighbours; (b) every cyclic window of kn_alpha; (c) for 4 parameters all tuples over the
    first three kinds.  With and without a return entry for (b).
    """
    if len(kn_alpha) < 3:
        return
    base = kn_alpha[0]

    def one(tup, rk, r):
        names = NAMES[: len(tup)]
        return dict(kinds=[list(kind) for kind, _ in tup], ret=rk, hdr="one", names=names), mk_ir([(n, p) for n, (_, p) in zip(names, tup)], r, HEADERS[0][1])

    for k in ks:
        for pos in range(k):
            for other in kn_alpha[1:]:
                yield one([other if i == pos else base for i in range(k)], *RETURNS[0])
        for start in range(len(kn_alpha)):
            win = [kn_alpha[(start + i) % len(kn_alpha)] for i in range(k)]
            yield one(win, *RETURNS[0])
            yield one(win, *RETURNS[1])
    for tup in itertools.product(kn_alpha[:3], repeat=4):
        yield one(list(tup), *RETURNS[0])


def defaults_form_suffix(ir):
    seen = False
    for p in ir["params"].values():
        if "default" in p:
            seen = True
        elif seen:
            return False
    return True


# ---- abstraction of values for signatures ----------------------------------------------------------------


def tclass(t):
    if t is None:
        return "none"
    for k in ("Optional", "Literal", "List", "Union"):
        if t.startswith(k + "["):
            return k
    return t if t in ("int", "float", "str", "bool", "dict", "list") else ("dotted" if "." in t else "other")


def vkind(v):
    """abstract kind of a default value (observed or expected)"""
    if v == "<absent>":
        return "ABSENT"
    if isinstance(v, str):
        if v == NoneStr:
            return "None"
        if v.startswith("```"):
            return "code"
        if v == "":
            return "emptystr"
        return "str"
    if v is None:
        return "pyNone"
    if isinstance(v, bool):
        return "bool"
    if isinstance(v, int):
        return "negint" if v < 0 else "int"
    if isinstance(v, float):
        return "negfloat" if v < 0 else "float"
    return type(v).__name__


def str_default_features(ir):
    """signature features of string defaults that the prose machinery is sensitive to"""
    ds = [p.get("default") for p in ir["params"].values() if isinstance(p.get("default"), str) and not p["default"].startswith("```")]
    return dict(dot_in_default=any("." in d for d in ds), quote_in_default=any('"' in d for d in ds),
                multiline_doc=any("\n" in (p.get("doc") or "") for p in ir["params"].values()))
