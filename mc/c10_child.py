"""
Child explorer for C10: started as a *fresh interpreter* with a given PYTHONHASHSEED; explores the tree of call histories by
forking: at node H (a history already executed in this process) every operation o is run in a forked child, which records the
digest of o's output given H and, below the depth bound, continues as node H+[o].  Prints one JSON object.

  python -B -m mc.c10_child <depth> [first_op]      (first_op restricts the root's children, for sharding)
"""
import hashlib
import json
import os
import shutil
import sys
import tempfile


def run_op(name):
    from mc import c10_ops

    d = tempfile.mkdtemp(prefix="c10_")
    try:
        try:
            text = c10_ops.OPS[name](d)
        except SystemExit as e:
            text = "EXIT:%s" % (e.code,)
        except BaseException as e:  # an operation that raises is still an observation
            text = "EXC:%s" % type(e).__name__
        return text
    finally:
        shutil.rmtree(d, ignore_errors=True)


def digest(text):
    return hashlib.sha256(text.encode("utf-8", "replace")).hexdigest()[:16]


def explore(history, depth, results_fd, only=None):
    from mc import c10_ops

    if os.environ.get("VERIF_COV"):
        from mc import cov

        cov.start()

    for name in c10_ops.OPS:
        if only is not None and name != only:
            continue
        pid = os.fork()
        if pid == 0:
            code = 0
            try:
                text = run_op(name)
                rec = dict(history=history, op=name, digest=digest(text), head=text[:0], raised=text.startswith(("EXC:", "EXIT:")))
                if os.environ.get("C10_KEEP_TEXT"):
                    rec["text"] = text
                os.write(results_fd, (json.dumps(rec) + "\n").encode())
                if len(history) < depth:
                    explore(history + [name], depth, results_fd)
            except BaseException:
                code = 3
            finally:
                if os.environ.get("VERIF_COV") and len(history) == 0:
                    from mc import cov

                    cov.dump()
                os._exit(code)
        else:
            os.waitpid(pid, 0)


def main():
    if sys.argv[1] == "path":
        return main_path(json.loads(sys.argv[2]))
    depth = int(sys.argv[1])
    only = sys.argv[2] if len(sys.argv) > 2 else None
    sys.path.insert(0, os.path.dirname(os.path.dirname(os.path.abspath(__file__))))
    from mc import core

    core.scrub_env()
    real_stdout = os.dup(1)
    devnull = os.open(os.devnull, os.O_WRONLY)
    os.dup2(devnull, 1)
    os.dup2(devnull, 2)
    fd, path = tempfile.mkstemp(prefix="c10_res_")
    try:
        explore([], depth, fd, only)
        os.lseek(fd, 0, 0)
        data = b""
        while True:
            b = os.read(fd, 1 << 20)
            if not b:
                break
            data += b
    finally:
        os.close(fd)
        os.unlink(path)
    probes = dict(
        set3=list({"alpha", "beta", "gamma"}),
        set_abc=list({"a", "b", "c"}),
        set5=list({"a", "b", "c", "d", "e"} - {"b", "d"}),
    )
    out = dict(seed=os.environ.get("PYTHONHASHSEED"), probes=probes, records=[json.loads(l) for l in data.decode().splitlines() if l.strip()])
    os.write(real_stdout, json.dumps(out).encode())


def main_path(path):
    """replay mode: run the operations of `path` in order in this one fresh interpreter; print the digest of the last one"""
    sys.path.insert(0, os.path.dirname(os.path.dirname(os.path.abspath(__file__))))
    from mc import core

    core.scrub_env()
    real_stdout = os.dup(1)
    devnull = os.open(os.devnull, os.O_WRONLY)
    os.dup2(devnull, 1)
    os.dup2(devnull, 2)
    text = ""
    for name in path:
        text = run_op(name)
    os.write(real_stdout, json.dumps(dict(digest=digest(text), text=text[:4000])).encode())


if __name__ == "__main__":
    main()
