"""
Operation alphabet for C10 (output is a function of the input alone): concrete calls with fixed inputs chosen to touch every piece
of shared state / set iteration seen in the code.  Each operation takes a fresh scratch directory and returns text.
"""
import ast
import io
import json
import os
from collections import OrderedDict
from contextlib import redirect_stderr, redirect_stdout
from copy import deepcopy

FN_SUBSET = '''def f(a, b, c, d, e):
    """
    Summary.

    :param b: the b
    :type b: ```int```

    :param d: the d
    :type d: ```str```
    """
    return a
'''
FN_PERM = '''def f(alpha, beta, gamma, delta, epsilon=5):
    """
    Summary.

    :param epsilon: the e
    :type epsilon: ```int```

    :param gamma: the c
    :type gamma: ```str```

    :param alpha: the a
    :type alpha: ```int```
    """
    return alpha
'''
FN_GOOGLE_SUBSET = '''def f(first, second, third, fourth):
    """Summary.

    Args:
      third (int): the third
    """
    return first
'''
CLASS_MERGE = '''class C(object):
    """
    Summary.

    :cvar x: the x
    :cvar z: the z
    """
    x: int = 5
    z: str = "q"

    def __call__(self, x, y, w, v):
        """
        Call it.

        :param y: the y
        :type y: ```float```
        """
        return x
'''
MODULE_FOR_IMPORTS = '''from sqlalchemy import Column
class K(Base):
    a: Optional[List[str]] = None
    b: Literal["x", "y"] = "x"
    c: Union[int, Dict[str, Any]] = 0
    d = Column(Integer, primary_key=True)
    e = Column(String, nullable=True)
    f = Column(Enum("p", "q"), default="p")
    g: Tuple[int, Callable[[int], Sequence[float]]] = None
'''
GEN_INPUT = '''class Alpha(object):
    """
    First.

    :cvar n: count
    :cvar names: the names
    :cvar mode: the mode
    """
    n: int = 5
    names: Optional[List[str]] = None
    mode: Literal["x", "y", "z"] = "x"


class Beta(object):
    """
    Second.

    :cvar flag: a flag
    :cvar ratio: a ratio
    """
    flag: bool = False
    ratio: Optional[float] = None


class Gamma(object):
    """
    Third.

    :cvar data: the data
    """
    data: Dict[str, Any] = None
'''
IMPORTS_FILE = "from typing import Optional, List\nimport os\nfrom collections import OrderedDict, deque\nimport sys\n"


def fixed_ir():
    return {
        "name": "Cfg",
        "type": "static",
        "doc": "Summary line.",
        "params": OrderedDict(
            (
                ("alpha", OrderedDict((("doc", "the alpha"), ("typ", "int"), ("default", 5)))),
                ("mode", OrderedDict((("doc", "the mode"), ("typ", "Literal['y', 'x', 'z']"), ("default", "x")))),
                ("names", OrderedDict((("doc", "the names"), ("typ", "Optional[List[str]]"), ("default", "```(None)```")))),
                ("ratio", OrderedDict((("doc", "the ratio"), ("typ", "float"), ("default", 0.5)))),
            )
        ),
        "returns": OrderedDict((("return_type", OrderedDict((("doc", "the result"), ("typ", "Dict[str, int]")))),)),
    }


def _canon(v):
    """text of a value without memory addresses: AST nodes (also nested in dicts/lists) are dumped"""
    if isinstance(v, ast.AST):
        return "AST:" + ast.dump(v)
    if isinstance(v, dict):
        return "{" + ", ".join("%s: %s" % (_canon(k), _canon(x)) for k, x in v.items()) + "}"
    if isinstance(v, (list, tuple)):
        return "[" + ", ".join(_canon(x) for x in v) + "]"
    return repr(v)


def ir_text(ir):
    def e(p):
        return [[k, _canon(v)] for k, v in p.items() if k != "_internal"]

    return json.dumps(
        [ir.get("name"), ir.get("doc"), [[n, e(p)] for n, p in (ir.get("params") or {}).items()], None if not ir.get("returns") else e(ir["returns"]["return_type"])]
    )


def _w(d, name, text):
    p = os.path.join(d, name)
    with open(p, "wt") as f:
        f.write(text)
    return p


def _r(p):
    with open(p, "rt") as f:
        return f.read()


def _main(argv):
    import cdd.__main__

    out, err = io.StringIO(), io.StringIO()
    with redirect_stdout(out), redirect_stderr(err):
        cdd.__main__.main(argv)
    return out.getvalue()


def op_fn_subset(d):
    import cdd.function.parse

    return ir_text(cdd.function.parse.function(ast.parse(FN_SUBSET).body[0]))


def op_fn_perm(d):
    import cdd.function.parse

    return ir_text(cdd.function.parse.function(ast.parse(FN_PERM).body[0]))


def op_fn_google_subset(d):
    import cdd.function.parse

    return ir_text(cdd.function.parse.function(ast.parse(FN_GOOGLE_SUBSET).body[0]))


FN_UNSEEN = [
    # names the docstring documents and the parser does not find among args/kwonlyargs; each function is parsed on its own
    '''def f(first, second, third, /, fourth):
    """
    Summary.

    :param third: the third
    :param first: the first
    :param fourth: the fourth
    :param second: the second
    """
    return first
''',
    '''def f(first, second, /, *rest: int, fifth=5):
    """
    Summary.

    :param rest: the rest
    :param second: the second
    :param fifth: the fifth
    :param first: the first
    """
    return first
''',
    '''def f(x):
    """
    Summary.

    :param zeta: not in the signature
    :param x: the x
    :param omega: not in the signature
    :param alpha: not in the signature
    :param kappa: not in the signature
    :param beta: not in the signature
    """
    return x
''',
    '''def f(a, b, /, c, *args, **kwargs):
    """Summary.

    Args:
      b (int): the b
      args: the args
      a (int): the a
      kwargs: the kwargs
      c (int): the c
    """
    return a
''',
]


def op_fn_posonly_and_stray(d):
    import cdd.function.parse

    out = []
    for src in FN_UNSEEN:
        try:
            out.append(ir_text(cdd.function.parse.function(ast.parse(src).body[0])))
        except Exception as e:
            out.append("EXC:" + type(e).__name__)
    return "\n".join(out)


DOC_TWO_PHRASINGS = [
    "Summary.\n\n:param width: target width. Default value is 640. A negative width defaults to 0.\n:type width: ```int```\n",
    "Summary.\n\n:param mode: the mode (default: 'fast'). Defaults to 'slow' on small inputs. Default is 'mid'.\n",
    "Summary.\n\nArgs:\n  ratio (float): the ratio, defaults to 0.5; Default value is 0.25. By default 0.75\n",
]


def op_doc_two_default_phrasings(d):
    # one description announcing its default in two or three different phrasings: which one wins must not depend on anything but the text
    import cdd.docstring.parse

    out = []
    for doc in DOC_TWO_PHRASINGS:
        for edd in (False, True):
            try:
                out.append(ir_text(cdd.docstring.parse.docstring(doc, emit_default_doc=edd)))
            except Exception as e:
                out.append("EXC:" + type(e).__name__)
    return "\n".join(out)


# descriptions without a declared type whose first sentence lists alternative types, some of the words naming the same type (filename/path/string,
# integer/number): the inferred type is a function of the text only
DOC_TYPE_WORDS = [
    "Summary.\n\n:param source: Filename, path, float or int.\n",
    "Summary.\n\n:param scale: Integer, float or number.\n:param flag: Boolean, string or path\n",
    "Summary.\n\nArgs:\n  source: String, filename, integer or boolean to use.\n  other: Float or int.\n",
    "Summary.\n\nParameters\n----------\nsource\n    Path, string, number or float.\n",
]


def op_doc_types_from_prose(d):
    import cdd.docstring.parse

    out = []
    for doc in DOC_TYPE_WORDS:
        for infer_type in (False, True):
            try:
                out.append(ir_text(cdd.docstring.parse.docstring(doc, infer_type=infer_type)))
            except Exception as e:
                out.append("EXC:" + type(e).__name__)
    return "\n".join(out)


def op_class_merge(d):
    import cdd.class_.parse

    return ir_text(cdd.class_.parse.class_(ast.parse(CLASS_MERGE).body[0], merge_inner_function="__call__"))


def _emit(fmt, **kw):
    from mc import formats as F

    node = F.emit_ast(fmt, deepcopy(fixed_ir()), "rest", True, **kw)
    if isinstance(node, str):
        return node
    if isinstance(node, dict):
        return json.dumps(node)
    return F.render(node)


def op_emit_docstring(d):
    return _emit("docstring")


def op_emit_class(d):
    return _emit("class")


def op_emit_function(d):
    return _emit("function")


def op_emit_argparse(d):
    return _emit("argparse")


def op_emit_sqlalchemy(d):
    return _emit("sqlalchemy") + _emit("sqlalchemy_table") + _emit("sqlalchemy_hybrid")


def op_emit_json_schema(d):
    return _emit("json_schema")


def op_infer_imports(d):
    import cdd.shared.ast_utils
    from cdd.shared.source_transformer import to_code

    mod = ast.parse(MODULE_FOR_IMPORTS)
    imports = list(cdd.shared.ast_utils.optimise_imports(cdd.shared.ast_utils.infer_imports(mod)))
    return "\n".join(to_code(i) for i in imports)


def op_gen_infer(d):
    src = _w(d, "gen_in.py", GEN_INPUT)
    out = os.path.join(d, "gen_out.py")
    _main(["gen", "--name-tpl", "{name}Tbl", "--input-mapping", src, "--parse", "class", "--emit", "sqlalchemy", "-o", out, "--emit-and-infer-imports"])
    return _r(out)


def op_gen_prepend(d):
    src = _w(d, "gen_in.py", GEN_INPUT)
    imp = _w(d, "imports_src.py", IMPORTS_FILE)
    out = os.path.join(d, "gen_out.py")
    _main(["gen", "--name-tpl", "{name}Config", "--input-mapping", src, "--parse", "class", "--emit", "argparse", "-o", out, "--prepend", "import json\n", "--imports-from-file", imp])
    return _r(out)


def op_gen_class(d):
    src = _w(d, "gen_in.py", GEN_INPUT)
    out = os.path.join(d, "gen_out.py")
    _main(["gen", "--name-tpl", "{name}", "--input-mapping", src, "--parse", "infer", "--emit", "sqlalchemy_table", "-o", out])
    return _r(out)


def op_doctrans(d):
    p = _w(d, "dt.py", FN_PERM + "\n\n" + CLASS_MERGE)
    _main(["doctrans", "--filename", p, "--format", "google", "--no-type-annotations"])
    return _r(p)


def op_doctrans_numpydoc(d):
    # the *same* source text as op_doctrans, towards another style: anything remembered per source string shows up here
    p = _w(d, "dt.py", FN_PERM + "\n\n" + CLASS_MERGE)
    _main(["doctrans", "--filename", p, "--format", "numpydoc", "--type-annotations"])
    return _r(p)


def op_cst_parse_doctrans_source(d):
    # the concrete syntax tree of that same source text (values and line spans)
    import cdd.shared.cst

    nodes = cdd.shared.cst.cst_parse(FN_PERM + "\n\n" + CLASS_MERGE)
    return json.dumps([[type(n).__name__, getattr(n, "line_no_start", None), getattr(n, "line_no_end", None), n.value] for n in nodes])


SYNC_CLASS = '''class ConfigClass(object):
    """
    Summary.

    :cvar alpha: the alpha
    :cvar mode: the mode
    :cvar ratio: the ratio
    """
    alpha: int = 5
    mode: Literal["x", "y"] = "x"
    ratio: float = 0.5
'''
SYNC_FN = '''class C(object):
    """C"""

    def method(self, alpha=5, mode="x", ratio=0.5):
        """
        Summary.

        :param alpha: the alpha
        :type alpha: ```int```

        :param mode: the mode
        :type mode: ```Literal["x", "y"]```

        :param ratio: the ratio
        :type ratio: ```float```
        """
'''


def op_sync(d):
    c = _w(d, "s_class.py", SYNC_CLASS)
    f = _w(d, "s_fn.py", SYNC_FN)
    a = os.path.join(d, "s_argparse.py")
    _w(d, "s_argparse.py", "")
    _main(["sync", "--class", c, "--class-name", "ConfigClass", "--function", f, "--function-name", "C.method", "--argparse-function", a, "--argparse-function-name", "set_cli_args", "--truth", "class"])
    return _r(c) + "\n#----\n" + _r(f) + "\n#----\n" + _r(a)


def op_import_openapi_emit_utils(d):
    import cdd.compound.openapi.utils.emit_utils  # noqa
    import cdd.sqlalchemy.utils.emit_utils

    return json.dumps(sorted(cdd.sqlalchemy.utils.emit_utils.typ2column_type.items()))


def op_get_module_contents(d):
    import cdd.compound.exmod_utils

    p = _w(d, "gmc.py", "class A(object):\n    pass\n\ndef f():\n    pass\n\n__all__ = ['A', 'f']\n")
    res = cdd.compound.exmod_utils.get_module_contents(None, p)
    res2 = cdd.compound.exmod_utils.get_module_contents(None, os.path.join(d, "does_not_exist"))
    return json.dumps([sorted(map(str, res)), sorted(map(str, res2))])


def op_openapi(d):
    import cdd.compound.openapi.emit
    import cdd.json_schema.emit
    from cdd.compound.openapi.utils.emit_openapi_utils import NameModelRouteIdCrud

    def schema(name):
        return cdd.json_schema.emit.json_schema(dict(deepcopy(fixed_ir()), name=name), "https://example.com/%s.json" % name)

    doc = cdd.compound.openapi.emit.openapi(
        [
            NameModelRouteIdCrud(name="Config", model=schema("Config"), route="/api/config", id="alpha", crud="CRD"),
            NameModelRouteIdCrud(name="User", model=schema("User"), route="/api/user", id="alpha", crud="CR"),
        ]
    )
    return json.dumps(doc)


def op_parse_json_schema_and_sqlalchemy(d):
    import cdd.json_schema.emit
    import cdd.json_schema.parse
    import cdd.sqlalchemy.parse
    from mc import formats as F

    ir = fixed_ir()
    del ir["params"]["names"]  # Optional[List[str]] has no JSON-schema type: the parser raises on what the emitter writes for it
    ir["returns"] = None
    sch = cdd.json_schema.emit.json_schema(deepcopy(ir), "https://example.com/cfg.json")
    a = cdd.json_schema.parse.json_schema(json.loads(json.dumps(sch)))
    text = F.render(F.emit_ast("sqlalchemy", deepcopy(ir), "rest", True))
    b = cdd.sqlalchemy.parse.sqlalchemy(ast.parse(text).body[0])
    return ir_text(a) + "\n" + ir_text(b)


# ---- twin inputs: same names and shapes, values that compare (and hash) equal across types - 1/True/1.0, 0/False/0.0, 5/5.0 -----------
# anything memoised on ==/hash of a value, or on a name alone, answers one twin with the other twin's result
def twin_ir(which):
    vals = {"a": dict(retries=("int", 1), delay=("int", 0), limit=("int", 5), scale=("float", 1.0)),
            "b": dict(retries=("bool", True), delay=("bool", False), limit=("float", 5.0), scale=("int", 1))}[which]
    return {
        "name": "Cfg",
        "type": "static",
        "doc": "Summary line.",
        "params": OrderedDict((n, OrderedDict((("doc", "the %s" % n), ("typ", t), ("default", v)))) for n, (t, v) in vals.items()),
        "returns": None,
    }


TWIN_SRC = {
    "a": 'def f(retries: int = 1, delay: int = 0, limit: int = 5):\n    """\n    Summary.\n\n    :param retries: the retries. Defaults to 1\n\n    :param delay: the delay. Defaults to 0\n\n'
         '    :param limit: the limit. Defaults to 5\n    """\n    return retries\n',
    "b": 'def f(retries: bool = True, delay: bool = False, limit: float = 5.0):\n    """\n    Summary.\n\n    :param retries: the retries. Defaults to True\n\n    :param delay: the delay. Defaults to False\n\n'
         '    :param limit: the limit. Defaults to 5.0\n    """\n    return retries\n',
}


def _twin(which):
    import cdd.docstring.parse
    import cdd.function.parse
    from mc import formats as F

    out = []
    for fmt in ("docstring", "class", "function", "argparse", "json_schema"):
        for style in (("rest", "google", "numpydoc") if fmt == "docstring" else ("rest",)):
            node = F.emit_ast(fmt, deepcopy(twin_ir(which)), style, True)
            out.append(node if isinstance(node, str) else json.dumps(node) if isinstance(node, dict) else F.render(node))
    fn = ast.parse(TWIN_SRC[which]).body[0]
    out.append(ir_text(cdd.function.parse.function(fn)))
    out.append(ir_text(cdd.function.parse.function(fn, infer_type=True)))
    out.append(ir_text(cdd.docstring.parse.docstring(ast.get_docstring(fn), emit_default_doc=True)))
    out.append(ir_text(cdd.docstring.parse.docstring(ast.get_docstring(fn), emit_default_doc=False, infer_type=True)))
    return "\n#####\n".join(out)


def op_twin_a(d):
    return _twin("a")


def op_twin_b(d):
    return _twin("b")


# ---- hand-written SQLAlchemy models that share column *types*: one carries per-column extras (server_default, unique, index), the other none --------------
# anything kept per column type (a lookup table of pre-built entries, a memo on the type name) leaks the first model's extras into the second
SQL_MODELS = {
    "extras": (
        'class Article(Base):\n    __tablename__ = "article"\n\n    id = Column(Integer, primary_key=True, server_default="0")\n'
        '    status = Column(String, server_default="draft", nullable=False, unique=True, index=True)\n    live = Column(Boolean, server_default="false", default=False)\n'
        '    score = Column(Float, server_default="1.5", comment="the score")\n',
        'article = Table("article", metadata, Column("id", Integer, primary_key=True, server_default="0"), Column("status", String, server_default="draft", unique=True),'
        ' Column("payload", JSON, server_default="{}"))\n',
    ),
    "plain": (
        'class Note(Base):\n    __tablename__ = "note"\n\n    id = Column(Integer, primary_key=True)\n'
        '    title = Column(String, comment="title of the note")\n    done = Column(Boolean, default=False)\n    weight = Column(Float)\n    meta = Column(JSON)\n',
        'note = Table("note", metadata, Column("id", Integer, primary_key=True), Column("title", String, comment="title of the note"), Column("meta", JSON))\n',
    ),
}


def _sql_models(which):
    import cdd.json_schema.emit
    import cdd.sqlalchemy.parse
    from mc import formats as F

    cls_src, tbl_src = SQL_MODELS[which]
    out = []
    for ir in (cdd.sqlalchemy.parse.sqlalchemy(ast.parse(cls_src).body[0]), cdd.sqlalchemy.parse.sqlalchemy_table(ast.parse(tbl_src).body[0])):
        out.append(ir_text(ir))
        for fmt in ("sqlalchemy", "sqlalchemy_table", "sqlalchemy_hybrid"):
            try:
                out.append(F.render(F.emit_ast(fmt, deepcopy(ir), "rest", True)))
            except Exception as e:
                out.append("%s raises %s" % (fmt, type(e).__name__))
        try:
            out.append(json.dumps(cdd.json_schema.emit.json_schema(deepcopy(ir), "https://example.com/m.json"), default=repr))
        except Exception as e:
            out.append("json_schema raises %s" % type(e).__name__)
    return "\n#####\n".join(out)


def op_sql_model_extras(d):
    return _sql_models("extras")


def op_sql_model_plain(d):
    return _sql_models("plain")


# ---- exmod on a package whose module exports several symbols from one source file, among them names that differ only in case / only by an underscore ----
# (orderings produced with a key that is not injective leave ties in set-iteration order)
EXMOD_DB = '''"""db"""


class Connection(object):
    """
    A connection

    :cvar host: where to connect to
    :cvar port: which port"""

    host: str = "localhost"
    port: int = 5432


def connection(host="localhost", port=5432):
    """
    Build a connection

    :param host: where to connect to
    :type host: ```str```

    :param port: which port
    :type port: ```int```

    :return: the pair
    :rtype: ```tuple```
    """
    return host, port


class CONNECTION(object):
    """
    Constants of a connection

    :cvar retries: how often"""

    retries: int = 3


class Pool(object):
    """
    A pool

    :cvar size: how many"""

    size: int = 4


__all__ = ["Connection", "connection", "CONNECTION", "Pool"]
'''


def op_exmod_case_colliding(d):
    import sys

    import cdd.compound.exmod_utils

    pkg = "c10pkg_%d" % os.getpid()
    base = os.path.join(d, pkg)
    os.makedirs(base, exist_ok=True)
    _w(base, "__init__.py", '"""pkg"""\n\nfrom {0}.db import CONNECTION, Connection, Pool, connection\n\n__all__ = ["Connection", "connection", "CONNECTION", "Pool"]\n'.format(pkg))
    _w(base, "db.py", EXMOD_DB)
    out = os.path.join(d, "exmod_out")
    sys.path.insert(0, d)
    try:
        cdd.compound.exmod_utils.EXMOD_OUT_STREAM = io.StringIO()
        for emit in ("function",):
            try:
                _main(["exmod", "-m", pkg, "--emit", emit, "-o", os.path.join(out, emit)])
            except (SystemExit, Exception) as e:
                _w(d, "exmod_%s_error.txt" % emit, type(e).__name__)
    finally:
        sys.path.remove(d)
        for k in [k for k in sys.modules if k == pkg or k.startswith(pkg + ".")]:
            del sys.modules[k]
    res = []
    for dirpath, dirnames, filenames in os.walk(out):
        dirnames.sort()
        for fn in sorted(filenames):
            if fn.endswith(".py"):
                res.append("## %s\n%s" % (os.path.relpath(os.path.join(dirpath, fn), out), _r(os.path.join(dirpath, fn)).replace(pkg, "PKG")))
    return "\n".join(res) or "<nothing generated>"


OPS = OrderedDict(
    (
        ("fn_subset", op_fn_subset),
        ("fn_perm", op_fn_perm),
        ("fn_google_subset", op_fn_google_subset),
        ("fn_posonly_and_stray", op_fn_posonly_and_stray),
        ("doc_two_default_phrasings", op_doc_two_default_phrasings),
        ("doc_types_from_prose", op_doc_types_from_prose),
        ("class_merge", op_class_merge),
        ("emit_docstring", op_emit_docstring),
        ("emit_class", op_emit_class),
        ("emit_function", op_emit_function),
        ("emit_argparse", op_emit_argparse),
        ("emit_sqlalchemy", op_emit_sqlalchemy),
        ("emit_json_schema", op_emit_json_schema),
        ("infer_imports", op_infer_imports),
        ("gen_infer", op_gen_infer),
        ("gen_prepend", op_gen_prepend),
        ("gen_class", op_gen_class),
        ("doctrans", op_doctrans),
        ("doctrans_numpydoc", op_doctrans_numpydoc),
        ("cst_parse_doctrans_source", op_cst_parse_doctrans_source),
        ("sync", op_sync),
        ("import_openapi_emit_utils", op_import_openapi_emit_utils),
        ("get_module_contents", op_get_module_contents),
        ("openapi", op_openapi),
        ("parse_json_schema_and_sqlalchemy", op_parse_json_schema_and_sqlalchemy),
        ("twin_a", op_twin_a),
        ("twin_b", op_twin_b),
        ("exmod_case_colliding", op_exmod_case_colliding),
        ("sql_model_extras", op_sql_model_extras),
        ("sql_model_plain", op_sql_model_plain),
    )
)
