"""
C01 - docstring <-> interface round-trip (ReST, Google, NumPy).

Exhaustive product: I(1) u I(2) u I(3) x 3 styles x emit_default_doc x emit_types x word_wrap; each element is
emitted by cdd.docstring.emit.docstring, the text parsed by cdd.docstring.parse.docstring and the projection of the
result compared field by field with the original (reference model: mc.oracle.project).
"""
import itertools
from copy import deepcopy

from mc import alphabets as A
from mc import oracle as O

PROPERTY = "C01"

STYLES = ["rest", "google", "numpydoc"]
CONFIGS = [
    dict(style=s, emit_default_doc=d, emit_types=t, word_wrap=w)
    for s in STYLES
    for d in (True, False)
    for t in (True, False)
    for w in (True, False)
]


# name alphabet for single parameters: short, snake case, digit, keyword-like, and the spellings the parsers special-case
NAMES1 = ["alpha", "x", "learning_rate", "name2", "type", "return_type_", "some_kwargs", "args"]


def _alphabets(tier):
    docs = [d for d in A.DOCS if d[0] != "nodoc"]  # the domain: described parameters
    full = A.sigma_param(docs=docs)
    small = A.sigma_int()
    return full, small


def _space(tier):
    full, small = _alphabets(tier)
    if tier == "quick":
        # I(1) x every return kind under the one-line summary, x the plain return under the other summaries (thorough: the full product)
        yield from A.ir_space(full, small, 3, headers=A.HEADERS[:1], edges=True)
        yield from A.ir_space(full, [], 1, returns_1=A.RETURNS[1:2], headers=A.HEADERS[1:], alt_names=())
        yield from A.ir_space(A.sigma_param(docs=A.DOCS_BASIC), [], 1, returns_1=A.RETURNS[:2], names1=NAMES1[1:])
    else:
        yield from A.ir_space(full, small, 3, headers=A.HEADERS, returns_n=A.RETURNS[:3], edges=True)
        yield from A.ir_space(full, [], 1, returns_1=A.RETURNS[:2], names1=NAMES1[1:])
        # all ordered pairs over the full alphabet with plain descriptions
        plain = A.sigma_param(docs=A.DOCS_BASIC)
        for a, b in itertools.product(plain, repeat=2):
            yield dict(kinds=[list(a[0]), list(b[0])], ret="ret", hdr="one", names=A.NAMES[:2]), A.mk_ir(
                [("alpha", a[1]), ("beta", b[1])], A.RETURNS[1][1]
            )
        five = [small[i] for i in (0, 2, 3, 5, 6)]
        for tup in itertools.product(five, repeat=4):
            yield dict(kinds=[list(k) for k, _ in tup], ret="ret", hdr="one", names=A.NAMES[:4]), A.mk_ir(
                [(n, p) for n, (_, p) in zip(A.NAMES, tup)], A.RETURNS[1][1]
            )


# configuration the library reads from the environment at import time: a narrow wrap width and a two-space tab (child interpreters)
ENVS = [{"DOCTRANS_LINE_LENGTH": "40"}, {"DOCTRANS_LINE_LENGTH": "72", "DOCTRANS_TAB": "  "}]
ENV_BLOCK = 60


def _env_space(tier):
    """the sub-space run again under each environment: I(1) over the full alphabet (one return kind, one header) and I(2) over the collision alphabet"""
    full, small = _alphabets(tier)
    yield from A.ir_space(full, small, 2, returns_1=A.RETURNS[1:2], returns_n=A.RETURNS[:1], headers=A.HEADERS[:1], alt_names=(), wide=False)


def _wrap_sweep_space(tier):
    """descriptions of every length across the wrap column (default width 100): where the line breaks relative to the default text, the
    type and the full stop depends on nothing but that length"""
    defaults = [("str", "a b"), ("str", 'say "hi"'), ("str", "it's a b"), ("int", 5), ("Optional[str]", A.NoneStr), ("List[str]", "```['a', 'b']```")]
    for n in range(56, 101) if tier == "quick" else range(30, 131):
        words = ("word " * 40)[: n - 1].rstrip() + "x"
        for typ, dv in defaults:
            p = A.make_param(typ, "set", dv, "sweep", words)
            yield dict(kinds=[[typ, "sweep", "len%d" % n]], ret="ret", hdr="one", names=["alpha"], sweep=n), A.mk_ir([("alpha", p)], A.RETURNS[1][1])
            # the same parameter followed / preceded by another one (the readers treat the last entry of a section apart)
            q = A.make_param("int", "set", 3, "short", "the beta")
            yield dict(kinds=[[typ, "sweep", "len%d" % n], ["int", "set", "short"]], ret="ret", hdr="one", names=["alpha", "beta"], sweep=n, sweep_pos="first"), A.mk_ir([("alpha", p), ("beta", q)], A.RETURNS[1][1])
            yield dict(kinds=[["int", "set", "short"], [typ, "sweep", "len%d" % n]], ret="ret", hdr="one", names=["beta", "alpha"], sweep=n, sweep_pos="last"), A.mk_ir([("beta", q), ("alpha", p)], A.RETURNS[1][1])


def cases(tier, seed):
    for key, ir in _wrap_sweep_space(tier):
        yield dict(key=key, ir=_jsonable(ir))
    n_env = sum(1 for _ in _env_space(tier))
    for ei in range(len(ENVS)):
        for lo in range(0, n_env, ENV_BLOCK):
            yield dict(kind="env_block", env=ei, lo=lo, hi=lo + ENV_BLOCK)
    for key, ir in _space(tier):
        yield dict(key=key, ir=_jsonable(ir))


def _jsonable(ir):
    return dict(
        name=ir["name"],
        type=ir["type"],
        doc=ir["doc"],
        params=[[n, dict(p)] for n, p in ir["params"].items()],
        returns=None if ir["returns"] is None else dict(ir["returns"]["return_type"]),
    )


def _from_jsonable(j):
    from collections import OrderedDict

    return dict(
        name=j["name"],
        type=j["type"],
        doc=j["doc"],
        params=OrderedDict((n, dict(p)) for n, p in j["params"]),
        returns=None if j["returns"] is None else OrderedDict((("return_type", dict(j["returns"])),)),
    )


def worker_init(tier, seed):
    O.selfcheck()


def run_config(ir, cfg):
    """-> (violations, outcome)"""
    import cdd.docstring.emit
    import cdd.docstring.parse

    ctx = dict(check="docstring_roundtrip", style=cfg["style"], emit_default_doc=cfg["emit_default_doc"], emit_types=cfg["emit_types"])
    try:
        text = cdd.docstring.emit.docstring(
            deepcopy(ir),
            docstring_format=cfg["style"],
            emit_default_doc=cfg["emit_default_doc"],
            emit_types=cfg["emit_types"],
            word_wrap=cfg["word_wrap"],
        )
    except Exception as e:
        sig = dict(ctx)
        sig.update(field="emit", expected="text", observed="raises " + type(e).__name__)
        return [dict(sig=_classes(sig, ir), expected="a docstring", observed=repr(e)[:200])], "emit-raises"
    import re as _re

    declares = {"rest": r":param %s:", "google": r"^\s+%s( \(|:)", "numpydoc": r"^%s( :|$)"}[cfg["style"]]
    missing = [n for n in ir["params"] if not _re.search(declares % _re.escape(n), text, _re.M)]
    if missing:
        # nothing can be recovered from a text that does not even name the parameters: one violation, no field comparison
        sig = dict(ctx)
        sig.update(field="names_in_text", expected="every parameter named", observed="names not emitted")
        return [dict(sig=sig, expected=list(ir["params"]), observed="missing from text: %r" % missing, detail=text)], "names-not-emitted"
    if cfg["style"] == "google":
        # second root-cause clause: continuation lines of a multi-line description must be indented under their parameter, otherwise the
        # Google reader takes them for prose and everything after them is misread (one violation instead of a dozen consequential ones)
        cont = [l for p in ir["params"].values() for l in (p.get("doc") or "").split("\n")[1:] if l.strip()]
        flush = [l for l in cont if _re.search(r"^%s" % _re.escape(l.strip()), text, _re.M)]
        if flush:
            sig = dict(ctx)
            sig.update(field="continuation_indent", expected="continuation lines indented", observed="continuation line at column 0")
            return [dict(sig=sig, expected="indented continuation of a multi-line description", observed=flush[0], detail=text)], "continuation-unindented"
    try:
        back = cdd.docstring.parse.docstring(text, emit_default_doc=cfg["emit_default_doc"])
    except Exception as e:
        sig = dict(ctx)
        sig.update(field="parse", expected="interface", observed="raises " + type(e).__name__)
        return [dict(sig=_classes(sig, ir), expected="an interface", observed=repr(e)[:200], detail=text)], "parse-raises"
    rules = dict(omit_default=not cfg["emit_default_doc"], omit_typ=not cfg["emit_types"])
    viol = O.compare(ir, back, rules, ctx)
    if O.normdoc(back.get("doc"), False) != O.normdoc(ir["doc"], False):
        sig = dict(ctx)
        sig.update(field="header", expected="same", observed=O._dockind(O.normdoc(ir["doc"], False), O.normdoc(back.get("doc"), False)))
        viol.append(dict(sig=sig, expected=ir["doc"], observed=back.get("doc")))
    for v in viol:
        v["detail"] = text
        v["sig"]["n_params"] = len(ir["params"])
        if not cfg["word_wrap"] and False:
            v["sig"]["word_wrap"] = False
    return viol, "ok" if not viol else "diff"


def _classes(sig, ir):
    ps = list(ir["params"].values())
    sig["typ_classes"] = ",".join(sorted({A.tclass(p.get("typ")) for p in ps}))
    sig["default_kinds"] = ",".join(sorted({A.vkind(p.get("default", O.ABSENT)) for p in ps}))
    sig["n_params"] = len(ps)
    # (a parameter with a dotted type and a code-quoted default is what makes the ReST parser raise when the type line is omitted)
    sig["dot_in_default"] = any(isinstance(p.get("default"), str) and "." in p["default"] and not p["default"].startswith("```") for p in ps)
    sig["quote_in_default"] = any(isinstance(p.get("default"), str) and '"' in p["default"] for p in ps)
    sig["dotted_code_default"] = any(A.tclass(p.get("typ")) == "dotted" and A.vkind(p.get("default", O.ABSENT)) == "code" for p in ps)
    return sig


def in_domain(ir, cfg):
    if cfg["style"] in ("google", "numpydoc") and not A.defaults_form_suffix(ir):
        return False
    return True


def run(case):
    from mc import core

    if case.get("kind") == "env_block":
        sub = [dict(key=key, ir=_jsonable(ir)) for key, ir in itertools.islice(_env_space("quick"), case["lo"], case["hi"])]
        return core.run_env_block("mc.checks.c01", sub, ENVS[case["env"]], case["env"])
    if "env" in case and "ir" in case:
        return core.run_env_case("mc.checks.c01", case, ENVS)
    ir = _from_jsonable(case["ir"])
    cfgs = [case["cfg"]] if "cfg" in case else CONFIGS
    viol, n, outcomes = [], 0, set()
    for cfg in cfgs:
        if not in_domain(ir, cfg):
            continue
        n += 1
        vs, outcome = run_config(ir, cfg)
        outcomes.add(outcome)
        for v in vs:
            v["sig"]["kwargs_name"] = any(nm.endswith("kwargs") for nm in ir["params"])
            _classes(v["sig"], ir) if "dot_in_default" not in v["sig"] else None
            v["sig"]["word_wrap_only"] = None
            if A.partial_return(ir):
                v["sig"]["partial_return"] = A.partial_return(ir)
            v["case"] = dict(key=case.get("key"), ir=case["ir"], cfg=cfg)
        viol.extend(vs)
    # collapse word_wrap: a signature is reported once per (sig); word_wrap noted only if it matters
    for v in viol:
        v["sig"].pop("word_wrap_only", None)
    return dict(outcome="+".join(sorted(outcomes)), transitions=2 * n, evaluations=n, violations=viol)


def describe(tier):
    full, small = _alphabets(tier)
    return dict(
        rule="I(1) = every parameter kind of the full alphabet x 4 return kinds x 2 headers; I(2), I(3) = all ordered tuples over the "
        "collision alphabet x 2 return kinds (thorough: + all ordered pairs over the full alphabet, + I(4) over 5 kinds); each x 24 "
        "configurations (3 styles x emit_default_doc x emit_types x word_wrap), Google/NumPy restricted to suffix defaults; "
        "a case = (interface, configuration); all are non-trivial (>= 1 typed, described parameter)",
        bounds=dict(
            sigma_param=len(full),
            sigma_int=[list(k) for k, _ in small],
            types=A.TYPES,
            docs=[d[0] for d in A.DOCS],
            returns=[r[0] for r in A.RETURNS],
            configurations=len(CONFIGS),
            max_params=3 if tier == "quick" else 4,
        ),
        exhaustive=True,
        assumptions=[
            "projection/normalisation code of mc/oracle.py (descriptions compared up to whitespace, one terminal full stop and a trailing "
            "'Defaults to' clause; a field the configuration omits must come back absent or equal)",
            "small-scope hypothesis over parameter kinds: <= 3 (thorough 4) parameters, 16 type shapes",
        ],
    )


def standalone(case):
    """plain script replaying one (interface, configuration) without the explorer"""
    if "cfg" not in case:
        return None
    cfg = case["cfg"]
    return (
        "from collections import OrderedDict\nimport cdd.docstring.emit, cdd.docstring.parse\n"
        "ir = {{'name': None, 'type': 'static', 'doc': {doc!r},\n      'params': OrderedDict({params!r}),\n      'returns': {ret}}}\n"
        "text = cdd.docstring.emit.docstring(ir, docstring_format={style!r}, emit_default_doc={edd!r}, emit_types={et!r}, word_wrap={ww!r})\n"
        "print(text)\nback = cdd.docstring.parse.docstring(text, emit_default_doc={edd!r})\n"
        "print(dict(back['params']), back['returns'])\n"
    ).format(doc=case["ir"]["doc"], params=[(n, OrderedDictRepr(p)) for n, p in case["ir"]["params"]],
             ret="None" if case["ir"]["returns"] is None else "OrderedDict((('return_type', %r),))" % (case["ir"]["returns"],),
             style=cfg["style"], edd=cfg["emit_default_doc"], et=cfg["emit_types"], ww=cfg["word_wrap"])


class OrderedDictRepr(dict):
    def __repr__(self):
        return dict.__repr__(self)
