"""
C02 - class / pydantic / function / argparse: emit -> source text -> re-read -> parse round-trip.

Exhaustive product I(1) u I(2) u I(3) (signature-legal: defaults form a suffix) x 7 format variants x 3 styles x
emit_default_doc; oracle = projection equality under the two documented normalisations only.
"""
import itertools
from copy import deepcopy

from mc import alphabets as A
from mc import formats as F
from mc import oracle as O

PROPERTY = "C02"

VARIANTS = [
    ("class", {}),
    ("pydantic", {}),
    ("function", dict(type_annotations=True, emit_as_kwonlyargs=False)),
    ("function", dict(type_annotations=True, emit_as_kwonlyargs=True)),
    ("function", dict(type_annotations=False, emit_as_kwonlyargs=False)),
    ("function", dict(type_annotations=False, emit_as_kwonlyargs=True)),
    ("argparse", {}),
]
CONFIGS = [dict(fmt=f, kw=kw, style=s, emit_default_doc=d) for f, kw in VARIANTS for s in F.STYLES for d in (False, True)]
# keyword arguments of the emitters that the configurations above leave at their defaults (ReST, emit_default_doc off and on)
CONFIGS += [dict(fmt=f, kw=kw, style="rest", emit_default_doc=d) for f, kw in (
    ("function", dict(type_annotations=True, emit_as_kwonlyargs=False, function_type="self")),
    ("function", dict(type_annotations=False, emit_as_kwonlyargs=False, function_type="cls")),
    ("class", dict(class_bases=("Base", "Mixin"), decorator_list=["dataclass"])),
) for d in (False, True)]

RULES = {
    "class": {},
    "pydantic": {},
    "function": dict(absent_default_is_none=True),
    "argparse": dict(ret_only_if_default=True),
}


CORE_TYPES = ["int", "str", "bool", "Optional[str]", "List[str]", "Literal['a', 'b']"]


# optional collections of a scalar (argparse: action='append' without required=True and without choices)
EXTRA_TYPES = ["Optional[List[str]]", "Optional[List[float]]"]


def _space(tier):
    full = A.sigma_param()
    small = A.sigma_int()
    yield from A.ir_space(A.sigma_param(docs=[d for d in A.DOCS if d[0] in ("plain", "nodoc")], types=EXTRA_TYPES), [], 1, returns_1=A.RETURNS[:1], alt_names=())
    if tier == "quick":
        # description kinds and type shapes are crossed in full for six core types; every other type shape runs with the plain, the long and no description
        full = A.sigma_param(types=CORE_TYPES) + A.sigma_param(docs=[d for d in A.DOCS if d[0] in ("plain", "long", "nodoc")], types=[t for t in A.TYPES if t not in CORE_TYPES])
        # I(1) x {no return, plain return, long return} (thorough: all five return kinds)
        yield from A.ir_space(full, small, 3, returns_1=A.RETURNS[:2] + A.RETURNS[4:], returns_n=A.RETURNS[:1])
        yield from A.ir_space([], small, 2, returns_n=A.RETURNS[1:2], alt_names=(), wide=False)  # pairs also with a return entry
    else:
        yield from A.ir_space(full, small, 3, returns_n=A.RETURNS[:3])
        plain = A.sigma_param(docs=A.DOCS_BASIC)
        for a, b in itertools.product(plain, repeat=2):
            yield dict(kinds=[list(a[0]), list(b[0])], ret="ret", hdr="one", names=A.NAMES[:2]), A.mk_ir([("alpha", a[1]), ("beta", b[1])], A.RETURNS[1][1])
        five = [small[i] for i in (0, 2, 3, 5, 6)]
        for tup in itertools.product(five, repeat=4):
            yield dict(kinds=[list(k) for k, _ in tup], ret="ret", hdr="one", names=A.NAMES[:4]), A.mk_ir(
                [(n, p) for n, (_, p) in zip(A.NAMES, tup)], A.RETURNS[1][1]
            )


PARTIAL_KEYS = [("int", "int", "plain"), ("str", "absent", "plain"), ("Optional[str]", "none", "plain"), ("bool", "false", "plain")]


def _partial_doc_space():
    """partially documented interfaces: every pair (and the alternating triples) over four kinds in which one side carries no description"""
    table = dict(A.sigma_param())
    kinds = [(k, table[k]) for k in PARTIAL_KEYS]

    def strip(p):
        q = deepcopy(p)
        q.pop("doc", None)
        return q

    for (ka, pa), (kb, pb) in itertools.product(kinds, repeat=2):
        for docs in ((True, False), (False, True)):
            ps = [pa if docs[0] else strip(pa), pb if docs[1] else strip(pb)]
            yield dict(kinds=[list(ka), list(kb)], documented=list(docs), ret="noret", hdr="one", names=A.NAMES[:2]), A.mk_ir(list(zip(A.NAMES, ps)), None)
    for tup in itertools.product(kinds[:3], repeat=3):
        for docs in ((True, False, True), (False, True, False)):
            ps = [p if d else strip(p) for (_, p), d in zip(tup, docs)]
            yield dict(kinds=[list(k) for k, _ in tup], documented=list(docs), ret="noret", hdr="one", names=A.NAMES[:3]), A.mk_ir(list(zip(A.NAMES, ps)), None)


# configuration read from the environment at import time (child interpreters): narrow wrap width, two-space tab
ENVS = [{"DOCTRANS_LINE_LENGTH": "40"}, {"DOCTRANS_LINE_LENGTH": "72", "DOCTRANS_TAB": "  "}]
ENV_BLOCK = 40


def _env_space():
    """run again under each environment: I(1) over the full alphabet with one return kind, and the wrap sweep"""
    yield from A.ir_space(A.sigma_param(), [], 1, returns_1=A.RETURNS[1:2], alt_names=())


def _wrap_sweep_space(tier):
    """descriptions of every length across the wrap column: where the emitted docstring breaks depends on nothing but that length"""
    defaults = [("str", "a b"), ("str", 'say "hi"'), ("int", 5), ("Optional[str]", A.NoneStr)]
    for n in range(50, 101, 1) if tier != "quick" else range(60, 100, 2):
        words = ("word " * 40)[: n - 1].rstrip() + "x"
        for typ, dv in defaults:
            p = A.make_param(typ, "set", dv, "sweep", words)
            yield dict(kinds=[[typ, "sweep", "len%d" % n]], ret="ret", hdr="one", names=["alpha"], sweep=n), A.mk_ir([("alpha", p)], A.RETURNS[1][1])


def cases(tier, seed):
    n_env = sum(1 for _ in _env_space())
    for ei in range(len(ENVS)):
        for lo in range(0, n_env, ENV_BLOCK):
            yield dict(kind="env_block", env=ei, lo=lo, hi=lo + ENV_BLOCK)
    for key, ir in _wrap_sweep_space(tier):
        yield dict(key=key, ir=F.ir_to_json(ir))
    for key, ir in _partial_doc_space():
        if A.defaults_form_suffix(ir):
            yield dict(key=key, ir=F.ir_to_json(ir))
    for key, ir in _space(tier):
        if A.defaults_form_suffix(ir):
            yield dict(key=key, ir=F.ir_to_json(ir))


def worker_init(tier, seed):
    O.selfcheck()


def ctx_of(cfg):
    c = dict(check="format_roundtrip", fmt=cfg["fmt"], style=cfg["style"], emit_default_doc=cfg["emit_default_doc"])
    if cfg["fmt"] == "function":
        c["type_annotations"] = cfg["kw"]["type_annotations"]
        c["kwonly"] = cfg["kw"]["emit_as_kwonlyargs"]
        if cfg["kw"].get("function_type"):
            c["function_type"] = cfg["kw"]["function_type"]
    if cfg["kw"].get("class_bases"):
        c["class_kwargs"] = True
    return c


def classes(sig, ir):
    ps = list(ir["params"].values())
    sig["typ_classes"] = ",".join(sorted({A.tclass(p.get("typ")) for p in ps}))
    sig["default_kinds"] = ",".join(sorted({A.vkind(p.get("default", O.ABSENT)) for p in ps}))
    sig["doc_kinds"] = ",".join(sorted({"doc" if p.get("doc") else "nodoc" for p in ps}))
    sig["n_params"] = len(ps)
    # features that make a whole hop raise (exact lists of classes would differ for every tuple of parameters)
    sig["has_dict_param"] = any(p.get("typ") == "dict" for p in ps)
    sig.update(A.str_default_features(ir))
    sig["dotted_code_default"] = any(A.tclass(p.get("typ")) == "dotted" and A.vkind(p.get("default", O.ABSENT)) == "code" for p in ps)
    r = ir.get("returns")
    sig["ret"] = "none" if not r else ("default" if "default" in r["return_type"] else "plain")
    return sig


def run_config(ir, cfg):
    ctx = ctx_of(cfg)
    try:
        back, text = F.hop(cfg["fmt"], ir, cfg["style"], cfg["emit_default_doc"], **cfg["kw"])
    except F.HopError as e:
        sig = dict(ctx)
        sig.update(field=e.stage, expected="ok", observed="raises " + type(e.exc).__name__)
        return [dict(sig=classes(sig, ir), expected="hop completes", observed=str(e)[:300], detail=e.text)], e.stage + "-raises"
    viol = O.compare(ir, back, RULES[cfg["fmt"]], ctx)
    for v in viol:
        v["detail"] = text
        v["sig"]["doc_kind"] = "?"
    # annotate doc kind of the parameter concerned
    return viol, "ok" if not viol else "diff"


def run(case):
    from mc import core

    if case.get("kind") == "env_block":
        sub = [dict(key=key, ir=F.ir_to_json(ir)) for key, ir in itertools.islice(_env_space(), case["lo"], case["hi"])]
        return core.run_env_block("mc.checks.c02", sub, ENVS[case["env"]], case["env"])
    if "env" in case and "ir" in case:
        return core.run_env_case("mc.checks.c02", case, ENVS)
    ir = F.ir_from_json(case["ir"])
    cfgs = [case["cfg"]] if "cfg" in case else CONFIGS
    viol, n, outcomes = [], 0, set()
    has_nodoc = any(not p.get("doc") for p in ir["params"].values())
    for cfg in cfgs:
        n += 1
        vs, outcome = run_config(ir, cfg)
        outcomes.add(outcome)
        for v in vs:
            v["sig"]["doc_kind"] = "some_nodoc" if has_nodoc else "all_doc"
            for fk, fv in A.str_default_features(ir).items():
                v["sig"].setdefault(fk, fv)
            v["case"] = dict(key=case.get("key"), ir=case["ir"], cfg=cfg)
        viol.extend(vs)
    return dict(outcome="+".join(sorted(outcomes)), transitions=2 * n, evaluations=n, violations=viol)


def describe(tier):
    return dict(
        rule="I(1) = every parameter kind (16 type shapes x legal default kinds x 5 description kinds incl. none) x 4 return kinds; I(2), "
        "I(3) = ordered tuples over the 11-kind collision alphabet x 2 return kinds, restricted to suffix defaults (thorough: + all pairs over "
        "the full alphabet + I(4) over 5 kinds); each x 42 configurations (class, pydantic, function x annotations x kw-only, argparse; "
        "x 3 styles x emit_default_doc). A case = (interface, configuration); emitted AST is rendered with to_code and re-read with ast.parse",
        bounds=dict(sigma_param=len(A.sigma_param()), sigma_int=[list(k) for k in A.SIGMA_INT_KEYS], configurations=len(CONFIGS), max_params=3 if tier == "quick" else 4),
        exhaustive=True,
        assumptions=[
            "mc/oracle.py projection; normalisations accepted: function parameter without default may come back with default None; "
            "argparse return entry only compared when it has a default",
            "small-scope hypothesis over parameter kinds and count",
        ],
    )


def standalone(case):
    if "cfg" not in case:
        return None
    cfg = case["cfg"]
    return (
        "import sys; sys.path.insert(0, '/verif')  # only for mc.formats.hop = emit -> to_code -> ast.parse -> parse\n"
        "from mc import formats as F\nir = F.ir_from_json({ir!r})\n"
        "back, text = F.hop({fmt!r}, ir, {style!r}, {edd!r}, **{kw!r})\nprint(text)\nprint(dict(back['params']), back.get('returns'))\n"
    ).format(ir=case["ir"], fmt=cfg["fmt"], style=cfg["style"], edd=cfg["emit_default_doc"], kw=cfg["kw"])
