"""
C03 - any chain of format conversions preserves the interface.

Explicit-state graph search per initial interface: a state is a canonical IR (reached by a history of hops), a transition
is one hop (emit -> text -> re-parse) through one of {class, pydantic, function, argparse, docstring-rest} executed by the
real code.  Invariant on every transition: the hop preserves names, order, types and defaults of its *source state*
(modulo the documented normalisations), hence every reachable state equals the initial interface and all paths commute.
BFS with canonical hashing; reports states/transitions and whether the frontier closed before the depth bound.
"""
from collections import deque

from mc import alphabets as A
from mc import core
from mc import formats as F
from mc import oracle as O

PROPERTY = "C03"

# "*_edd": the same emitter writing 'Defaults to ...' into the docstring (what `gen` does by default): default in the prose, type only in the code
HOPS = ["class", "pydantic", "function", "argparse", "docstring"]
# taken as the first hop only and not expanded (as full members of the alphabet they multiply the state space by eight)
FIRST_HOPS_ONLY = ["function_edd", "class_edd"]
RULES = dict(absent_default_is_none=True, ignore_doc=True, ignore_returns=True)

TYPES = ["int", "float", "str", "bool", "Optional[int]", "Optional[float]", "Optional[str]", "Optional[bool]", "Literal['a', 'b']", "Literal['a', 'b', 'c']"]


def _bounds(tier):
    return dict(depth=5 if tier == "quick" else 6, max_states=400)


def _space(tier):
    full = A.sigma_param(docs=A.DOCS_BASIC, types=TYPES)
    yield from A.ir_space(full, [kp for kp in A.sigma_int() if kp[0][0] in TYPES], 3, returns_1=A.RETURNS[:2], returns_n=A.RETURNS[:1])


def cases(tier, seed):
    for key, ir in _space(tier):
        if A.defaults_form_suffix(ir):
            yield dict(key=key, ir=F.ir_to_json(ir), depth=_bounds(tier)["depth"])


_FINDINGS = []


def worker_init(tier, seed):
    O.selfcheck()
    _FINDINGS[:] = core.load_findings(PROPERTY)


def do_hop(fmt, ir):
    if fmt == "docstring":
        return F.hop("docstring", ir, "rest", True)
    if fmt.endswith("_edd"):
        return F.hop(fmt[:-4], ir, "rest", True)
    return F.hop(fmt, ir, "rest", False)


def internal_digest(ir):
    import ast as _ast

    it = ir.get("_internal") or {}
    body = it.get("body") or []
    return (it.get("original_doc_str"), tuple(_ast.dump(b) if isinstance(b, _ast.AST) else repr(b) for b in body), it.get("from_name"), it.get("from_type"))


def strip_internal(ir):
    ir = dict(ir)
    ir.pop("_internal", None)
    return ir


def run(case):
    ir0 = F.ir_from_json(case["ir"])
    depth_bound = case.get("depth", 4)
    start = (O.canon_ir(ir0), internal_digest(ir0))
    seen = {start}
    frontier = deque([(ir0, [], False)])
    viol, transitions, closed, max_depth, poisoned = [], 0, True, 0, 0
    interfaces = {O.canon_ir(ir0, with_doc=False)}
    while frontier:
        ir, path, lossy = frontier.popleft()
        if len(path) >= depth_bound:
            closed = False
            continue
        for fmt in HOPS + (FIRST_HOPS_ONLY if not path else []):
            transitions += 1
            newpath = path + [fmt]
            ctx = dict(check="chain_hop", last_hop=fmt, from_initial=not path)
            if lossy:
                ctx["after_recorded_loss"] = True
            try:
                back, text = do_hop(fmt, ir)
            except F.HopError as e:
                sig = dict(ctx)
                sig.update(field=e.stage, expected="ok", observed="raises " + type(e.exc).__name__)
                ps = list(ir["params"].values())
                sig["typ_classes"] = ",".join(sorted({A.tclass(p.get("typ")) for p in ps}))
                sig["default_kinds"] = ",".join(sorted({A.vkind(O.normdefault(p["default"]) if "default" in p else O.ABSENT) for p in ps}))
                sig.update(A.str_default_features(ir))
                viol.append(dict(sig=sig, expected="hop completes", observed=str(e)[:300], detail=dict(path=newpath, source_state=F.ir_to_json(strip_internal(ir))), case=dict(ir=case["ir"], path=newpath)))
                continue
            # `_internal` (original docstring, body) is carried along in the live object - real chains hand the parser's result straight to the
            # next emitter - but is not part of the compared interface; it is part of the state key so that merged states have equal futures
            hop_viol = list(map(abstract_typ, O.compare(ir, back, RULES, ctx)))
            for v in hop_viol:
                v["sig"].update(A.str_default_features(ir))
                v["detail"] = dict(path=newpath, source_state=repr(O.project(ir)[0]), text=text)
                v["case"] = dict(ir=case["ir"], path=newpath)
                viol.append(v)
            if hop_viol:
                # the target state is already wrong: what happens to a corrupted interface afterwards is not the property's subject -
                # unless every difference is a *recorded* loss (known finding): those states are what real chains continue from, so the
                # search goes on through them (every later hop is still judged against its own source state)
                poisoned += 1
                if not (_FINDINGS and all("R-argparse-none-default" in ((core.match_finding(_FINDINGS, v["sig"]) or {}).get("what") or "") for v in hop_viol)):
                    continue  # (only the argparse hop's dropped None default: the result is a well-formed interface of its own; other recorded losses leave garbage behind)
                through_loss = True
            else:
                through_loss = False
            if fmt in FIRST_HOPS_ONLY:
                continue
            k = (O.canon_ir(back), internal_digest(back))
            interfaces.add(O.canon_ir(back, with_doc=False))
            if k not in seen:
                if len(seen) >= 400:
                    closed = False
                    continue
                seen.add(k)
                max_depth = max(max_depth, len(newpath))
                frontier.append((back, newpath, lossy or through_loss))
    # de-duplicate identical signatures inside one search (keep the shortest path = first found)
    uniq, out = set(), []
    for v in viol:
        k = O_key(v["sig"])
        if k not in uniq:
            uniq.add(k)
            out.append(v)
    return dict(
        outcome="closed" if closed else "open",
        transitions=transitions,
        states=[(O_key(case["ir"]), repr(s)) for s in seen] if False else [hash((O_key(case["ir"]), s)) for s in seen],
        violations=out,
        extra=dict(max_depth=max_depth, closed_graphs=int(closed), open_graphs=int(not closed), max_states_per_graph=len(seen), max_interfaces_per_graph=len(interfaces), transitions_into_violating_states=poisoned),
    )


def abstract_typ(v):
    """for type drift the signature keeps the *kind* of change, not the concrete strings"""
    sig = v["sig"]
    if sig.get("field") == "typ":
        e, o = sig["expected"], sig["observed"]
        if o == "None":
            kind = "lost"
        elif o == "Optional[%s]" % e:
            kind = "wrapped_optional"
        elif e == "Optional[%s]" % o:
            kind = "unwrapped_optional"
        elif e.startswith("Optional[") and o.startswith("Optional["):
            kind = "optional_base_changed_to_" + A.tclass(o[9:-1])
        else:
            kind = "changed_to_" + A.tclass(o)
        sig["expected"], sig["observed"] = A.tclass(e), kind
    return v


def dot_default(ir):
    return any(isinstance(p.get("default"), str) and "." in p["default"] and not p["default"].startswith("```") for p in ir["params"].values())


def O_key(o):
    import json

    return json.dumps(o, sort_keys=True, default=repr)


def replay_case(case):
    """a replay case carries a path: run exactly that path"""
    ir = F.ir_from_json(case["ir"])
    viol = []
    for i, fmt in enumerate(case["path"]):
        ctx = dict(check="chain_hop", last_hop=fmt, from_initial=i == 0)
        try:
            back, text = do_hop(fmt, ir)
        except F.HopError as e:
            sig = dict(ctx)
            sig.update(field=e.stage, expected="ok", observed="raises " + type(e.exc).__name__)
            ps = list(ir["params"].values())
            sig["typ_classes"] = ",".join(sorted({A.tclass(p.get("typ")) for p in ps}))
            sig["default_kinds"] = ",".join(sorted({A.vkind(O.normdefault(p["default"]) if "default" in p else O.ABSENT) for p in ps}))
            sig.update(A.str_default_features(ir))
            viol.append(dict(sig=sig, expected="hop completes", observed=str(e)[:300]))
            break
        if i == len(case["path"]) - 1:
            for v in map(abstract_typ, O.compare(ir, back, RULES, ctx)):
                v["sig"].update(A.str_default_features(ir))
                viol.append(v)
        ir = back
    return dict(outcome="replay", transitions=len(case["path"]), violations=viol)


_run_search = run


def run(case):  # noqa: F811
    if "path" in case:
        return replay_case(case)
    return _run_search(case)


MAX_REPORT = 15


def describe(tier):
    b = _bounds(tier)
    return dict(
        rule="initial interfaces: every single parameter over 10 common-domain type shapes x legal defaults (x 2 return kinds) and all ordered "
        "{n}-tuples over the common-domain part of the collision alphabet; per initial interface a BFS over the conversion graph with hops "
        "{hops}, depth bound {depth} (sequence lengths 1..{depth}, all of them, not sampled), state = canonical interface incl. descriptions; "
        "a case is one initial interface, states/transitions are those of the graphs".format(n="pairs and triples", hops=HOPS, **b),
        bounds=dict(hops=HOPS, types=TYPES, **b),
        exhaustive=True,
        explanation="closed_graphs counts initial interfaces whose reachable set closed before the depth bound (all longer chains covered); "
        "open_graphs are bounded by depth only",
        assumptions=[
            "per-hop preservation (each hop compared with its source state) implies end-to-end preservation and commutation",
            "docstring hop uses emit_default_doc=True (defaults must be in the prose to survive), code formats use emit_default_doc=False, style rest",
        ],
    )
