"""
C04 - emitted code runs and exposes exactly the described interface.

Exhaustive over executable-domain interfaces x emitters {class, pydantic-shaped class, function x kw-only x annotations, argparse}
x 3 styles.  CPython itself is the oracle: ast round trip of the rendered text, compile + exec, class attributes/annotations,
inspect.signature, the populated ArgumentParser.
"""
import argparse
import ast
import inspect
import itertools
import typing
from copy import deepcopy

from mc import alphabets as A
from mc import formats as F
from mc import oracle as O

PROPERTY = "C04"

TYPES = [t for t in A.TYPES if t != "pkg.Kind"]
VARIANTS = [
    ("class", {}),
    ("pydantic", {}),
    ("function", dict(type_annotations=True, emit_as_kwonlyargs=False)),
    ("function", dict(type_annotations=True, emit_as_kwonlyargs=True)),
    ("function", dict(type_annotations=False, emit_as_kwonlyargs=False)),
    ("argparse", {}),
    # the same emitters writing 'Defaults to ...' into the docstring (the docstring is rendered from the same parameter entries the code is built from)
    ("class", dict(edd=True)),
    ("pydantic", dict(edd=True)),
    ("function", dict(type_annotations=True, emit_as_kwonlyargs=False, edd=True)),
    ("argparse", dict(edd=True)),
]
CONFIGS = [dict(fmt=f, kw=kw, style=s) for f, kw in VARIANTS for s in F.STYLES]


def _space(tier):
    full = [kp for kp in A.sigma_param(docs=A.DOCS[:2] + A.DOCS[4:], types=TYPES) if kp[0][1] != "code"]
    small = [kp for kp in A.sigma_int()]
    yield from A.ir_space(full, small, 3 if tier == "quick" else 3, returns_1=A.RETURNS[:2] + A.RETURNS[3:], returns_n=A.RETURNS[:2])
    yield from A.ir_space([], small, 3, returns_n=A.RETURNS[:1], alt_names=[A.KWARGS_NAMES], wide=False)
    if tier == "thorough":
        plain = [kp for kp in A.sigma_param(docs=A.DOCS_BASIC, types=TYPES) if kp[0][1] != "code"]
        for a, b in itertools.product(plain, repeat=2):
            yield dict(kinds=[list(a[0]), list(b[0])], ret="ret", hdr="one", names=A.NAMES[:2]), A.mk_ir([("alpha", a[1]), ("beta", b[1])], A.RETURNS[1][1])


def cases(tier, seed):
    for key, ir in _space(tier):
        if A.defaults_form_suffix(ir):
            yield dict(key=key, ir=F.ir_to_json(ir))


def worker_init(tier, seed):
    O.selfcheck()


class _Fold(ast.NodeTransformer):
    """Constant(-5) cannot come out of a parser (it yields UnaryOp(USub, Constant(5))): fold both sides to one form"""

    def visit_UnaryOp(self, node):
        self.generic_visit(node)
        if isinstance(node.op, ast.USub) and isinstance(node.operand, ast.Constant) and isinstance(node.operand.value, (int, float)) and not isinstance(node.operand.value, bool):
            return ast.Constant(value=-node.operand.value)
        return node

    def visit_Constant(self, node):
        return ast.Constant(value=node.value)


def norm_dump(node):
    node = _Fold().visit(deepcopy(node))
    return ast.dump(node, annotate_fields=True, include_attributes=False)


def namespace():
    ns = {}
    exec("from typing import *\nfrom typing import Literal, Optional, List, Union\nfrom json import loads\nimport argparse\n"
         "class BaseModel(object):\n    pass\nclass Base(object):\n    pass\n", ns)
    return ns


def pyval(d):
    return None if d == A.NoneStr else d


def type_obj(t, ns):
    return eval(t, dict(ns))


def check_class(ns, ir, v):
    K = ns.get("Cfg")
    if not isinstance(K, type):
        v("class_defined", "class Cfg", repr(K))
        return
    ann = getattr(K, "__annotations__", {})
    params = list(ir["params"].items())
    if ir["returns"]:
        params.append(("return_type", ir["returns"]["return_type"]))
    names = [n for n in vars(K) if not n.startswith("__")] + [n for n in ann if n not in vars(K)]
    for name, p in params:
        pc = dict(typ_class=A.tclass(p.get("typ")), default_kind=A.vkind(p.get("default", O.ABSENT)))
        if name not in ann and name not in vars(K):
            v("class_attribute_missing", name, sorted(set(names)), **pc)
            continue
        if p.get("typ"):
            want = type_obj(p["typ"], ns)
            if name not in ann:
                v("class_annotation", p["typ"], "no annotation", **pc)
            else:
                got = ann[name] if not isinstance(ann[name], str) else eval(ann[name], dict(ns))
                if got != want:
                    v("class_annotation", p["typ"], repr(got), **pc)
        if "default" in p:
            if name not in vars(K):
                v("class_default", repr(pyval(p["default"])), "attribute has no value", **pc)
            else:
                got = vars(K)[name]
                if type(got) is not type(pyval(p["default"])) or got != pyval(p["default"]):
                    v("class_default", repr(pyval(p["default"])), repr(got), **pc)
        elif name in vars(K) and vars(K)[name] is not None:
            v("class_default", "no value", repr(vars(K)[name]), **pc)


def check_function(ns, ir, cfg, v):
    fn = ns.get("fn")
    if not callable(fn):
        v("function_defined", "def fn", repr(fn))
        return
    sig = inspect.signature(fn)
    want_names = list(ir["params"])
    got_names = list(sig.parameters)
    if got_names != want_names:
        v("signature_names", want_names, got_names)
        return
    for name, p in ir["params"].items():
        pc = dict(typ_class=A.tclass(p.get("typ")), default_kind=A.vkind(p.get("default", O.ABSENT)))
        sp = sig.parameters[name]
        want_kind = inspect.Parameter.KEYWORD_ONLY if cfg["kw"]["emit_as_kwonlyargs"] else inspect.Parameter.POSITIONAL_OR_KEYWORD
        if sp.kind != want_kind:
            v("signature_kind", str(want_kind), str(sp.kind), **pc)
        if "default" in p:
            want = pyval(p["default"])
            if sp.default is inspect.Parameter.empty or type(sp.default) is not type(want) or sp.default != want:
                v("signature_default", repr(want), repr(sp.default), **pc)
        elif sp.default is not inspect.Parameter.empty and sp.default is not None:
            v("signature_default", "none", repr(sp.default), **pc)
        if cfg["kw"]["type_annotations"] and p.get("typ"):
            want = type_obj(p["typ"], ns)
            got = sp.annotation if not isinstance(sp.annotation, str) else eval(sp.annotation, dict(ns))
            if got != want:
                v("signature_annotation", p["typ"], repr(got), **pc)


CONV = {"int": (int, "7", 7), "float": (float, "1.5", 1.5), "str": (str, "zz", "zz")}


def check_argparse(ns, ir, v):
    fn = ns.get("set_cli_args")
    if not callable(fn):
        v("argparse_defined", "def set_cli_args", repr(fn))
        return
    parser = argparse.ArgumentParser(prog="p", add_help=False)
    try:
        fn(parser)
    except Exception as e:
        v("argparse_population_raises", "populates", "%s: %s" % (type(e).__name__, e), exc=type(e).__name__)
        return
    actions = {a.dest: a for a in parser._actions}
    if sorted(actions) != sorted(ir["params"]):
        v("argparse_options", sorted(ir["params"]), sorted(actions))
        return
    required_args = []
    for name, p in ir["params"].items():
        a = actions[name]
        t = p.get("typ")
        pc = dict(typ_class=A.tclass(t), default_kind=A.vkind(p.get("default", O.ABSENT)))
        base = A.base_of(t) if t else None
        if "--" + name not in a.option_strings:
            v("argparse_option_string", "--" + name, a.option_strings, **pc)
        has_default = "default" in p and p["default"] != A.NoneStr
        want_required = not has_default and not (t or "").startswith("Optional[")
        if bool(a.required) != want_required and not (base == "bool" and "default" not in p):
            # (a bool without default is emitted as a store_true flag; the text does not say what 'required' means for a flag)
            v("argparse_required", want_required, bool(a.required), want=want_required, got=bool(a.required), **pc)
        if has_default:
            if type(a.default) is not type(p["default"]) or a.default != p["default"]:
                v("argparse_default", repr(p["default"]), repr(a.default), **pc)
        elif a.default is not None:
            v("argparse_default", "None", repr(a.default), **pc)
        members = O.literal_members(base) if base else None
        if members is not None:
            if a.choices is None or set(a.choices) != set(members):
                v("argparse_choices", sorted(members), repr(a.choices), n_members=len(members), **pc)
            else:
                # type conversion and choices must agree: the command-line text of every member converts to that member and is accepted
                for m in sorted(members):
                    try:
                        conv = (a.type or str)(str(m))
                    except Exception as e:
                        conv = "raises %s" % type(e).__name__
                    if conv != m or type(conv) is not type(m) or conv not in a.choices:
                        v("argparse_choice_member_rejected", "%r converts to %r and is among the choices" % (str(m), m), "converted %r, choices %r" % (conv, a.choices), **pc)
                        break
        elif a.choices is not None:
            v("argparse_choices", "None", repr(a.choices), **pc)
        if base in CONV:
            f, text, val = CONV[base]
            try:
                got = (a.type or str)(text)
            except Exception as e:
                got = "raises %s" % type(e).__name__
            if got != val or type(got) is not type(val):
                v("argparse_type_conversion", "%s(%r) == %r" % (base, text, val), repr(got), **pc)
        want_help = O.normdoc(p.get("doc"))
        if O.normdoc(a.help) != want_help:
            v("argparse_help", want_help, repr(a.help), **pc)
        if a.required:
            required_args += ["--" + name, str(sorted(members)[0]) if members else "1" if "int" in (base or "") else {"float": "1.5", "bool": "True", "dict": "{}", "list": "[]"}.get(base, "zz")]
    # parsing no optional arguments yields the described defaults
    try:
        got = parser.parse_args(required_args)
    except SystemExit:
        v("argparse_parse_args", "parses %r" % required_args, "SystemExit")
        return
    except Exception as e:
        v("argparse_parse_args", "parses %r" % required_args, "%s: %s" % (type(e).__name__, e), exc=type(e).__name__)
        return
    for name, p in ir["params"].items():
        if not actions[name].required:
            want = pyval(p["default"]) if "default" in p else None
            have = getattr(got, name)
            if type(have) is not type(want) or have != want:
                v("argparse_parsed_default", repr(want), repr(have), typ_class=A.tclass(p.get("typ")), default_kind=A.vkind(p.get("default", O.ABSENT)))


def run_config(ir, cfg):
    viol = []
    ctx = dict(check="emitted_code", fmt=cfg["fmt"], style=cfg["style"])
    if any(n.endswith("kwargs") for n in list(ir["params"])[:-1]):
        ctx["kwargs_name_not_last"] = True
    if any((p.get("typ") or "").replace("Optional[", "").rstrip("]") == "float" and isinstance(p.get("default"), int) and not isinstance(p.get("default"), bool) for p in ir["params"].values()):
        ctx["int_under_float"] = True
    if cfg["fmt"] == "function":
        ctx.update(type_annotations=cfg["kw"]["type_annotations"], kwonly=cfg["kw"]["emit_as_kwonlyargs"])
    if cfg["kw"].get("edd"):
        ctx["emit_default_doc"] = True
    ret = ir["returns"]["return_type"] if ir["returns"] else None
    ctx["ret"] = "none" if not ret else ("default" if "default" in ret else "plain")

    def v(clause, expected, observed, **extra):
        sig = dict(ctx)
        sig.update(clause=clause)
        sig.update(extra)
        viol.append(dict(sig=sig, expected=expected, observed=observed))

    try:
        node = F.emit_ast(cfg["fmt"], ir, cfg["style"], bool(cfg["kw"].get("edd")), **{k: x for k, x in cfg["kw"].items() if k != "edd"})
    except Exception as e:
        v("emit_raises", "an AST", "%s: %s" % (type(e).__name__, e), exc=type(e).__name__)
        return viol, "emit-raises", None
    try:
        text = F.render(node)
    except Exception as e:
        v("render_raises", "source text", "%s: %s" % (type(e).__name__, e), exc=type(e).__name__)
        return viol, "render-raises", None
    try:
        mod = ast.parse(text)
    except SyntaxError as e:
        v("does_not_parse", "valid Python", "SyntaxError: %s" % e)
        return viol, "syntax-error", text
    # (1) unparse/re-parse equality
    try:
        a, b = norm_dump(node), norm_dump(mod.body[0])
        if a != b:
            # classify: where do they first differ?
            i = next((k for k, (x, y) in enumerate(zip(a, b)) if x != y), min(len(a), len(b)))
            v("ast_roundtrip", a[max(0, i - 60): i + 60], b[max(0, i - 60): i + 60], where=_where(a, i))
    except Exception as e:
        v("ast_roundtrip", "dumpable AST", "%s: %s" % (type(e).__name__, e), exc=type(e).__name__, where="dump")
    # (2) compile + exec
    ns = namespace()
    try:
        exec(compile(mod, "<emitted>", "exec"), ns)
    except Exception as e:
        v("exec_raises", "module executes", "%s: %s" % (type(e).__name__, e), exc=type(e).__name__)
        return viol, "exec-raises", text
    # (3) interface
    try:
        if cfg["fmt"] in ("class", "pydantic"):
            check_class(ns, ir, v)
        elif cfg["fmt"] == "function":
            check_function(ns, ir, cfg, v)
        else:
            check_argparse(ns, ir, v)
    except Exception as e:
        v("oracle_raises", "interface inspectable", "%s: %s" % (type(e).__name__, e), exc=type(e).__name__)
    return viol, "ok" if not viol else "diff", text


def _where(dump, i):
    """name of the innermost AST node class opened before position i"""
    import re

    names = re.findall(r"([A-Za-z]+)\(", dump[:i])
    return names[-1] if names else "?"


def run(case):
    ir = F.ir_from_json(case["ir"])
    cfgs = [case["cfg"]] if "cfg" in case else CONFIGS
    viol, outcomes = [], set()
    for cfg in cfgs:
        vs, outcome, text = run_config(ir, cfg)
        outcomes.add(outcome)
        for x in vs:
            x["detail"] = text
            x["case"] = dict(key=case.get("key"), ir=case["ir"], cfg=cfg)
        viol.extend(vs)
    return dict(outcome="+".join(sorted(outcomes)), transitions=3 * len(cfgs), evaluations=len(cfgs), violations=viol)


def describe(tier):
    return dict(
        rule="interfaces of the executable domain (15 type shapes from typing + builtins, literal defaults, 3 description kinds, 3 return kinds): "
        "all single parameters, all ordered 2-/3-tuples over the collision alphabet (thorough: + all pairs over the full alphabet); each x "
        "{class, pydantic-shaped class, function x kw-only/annotations, argparse} x 3 styles; every emitted program is rendered, re-parsed, "
        "compiled, executed and inspected; a case = (interface, emitter, style)",
        bounds=dict(types=TYPES, configurations=len(CONFIGS)),
        exhaustive=True,
        assumptions=["CPython 3.12 ast/compile/exec/inspect/argparse are the oracle", "pydantic is not installed: pydantic-shaped classes run against an inert BaseModel stub",
                     "AST equality is modulo Constant(-n) vs UnaryOp(USub, Constant(n))"],
    )
