"""
C05 - SQLAlchemy class / Table / hybrid forms round-trip and agree.

Exhaustive over SQL-representable interfaces with 1..3 columns (type x default x PK/FK marker x candidate-PK name) x 3 variants x
3 docstring styles x force_pk_id.  Oracle: parse(render(emit(x))) == reference(x) where the reference model adds the documented
primary-key inference; the three variants agree pairwise; exactly one primary_key=True in every emission.
"""
import ast
import itertools
from collections import OrderedDict
from copy import deepcopy

from mc import alphabets as A
from mc import formats as F
from mc import oracle as O

PROPERTY = "C05"

VARIANTS = ["sqlalchemy", "sqlalchemy_table", "sqlalchemy_hybrid"]
TYPES = ["int", "float", "str", "bool", "dict", "Optional[int]", "Optional[float]", "Optional[str]", "Optional[bool]", "Optional[dict]", "Literal['a', 'b']", "Literal['a', 'b', 'c']",
         "Literal['a']", "Optional[Literal['a', 'b']]"]


def sql_defaults(t):
    d = [("absent", None)]
    if t == "int":
        d += [("int", 5), ("zero", 0), ("negint", -5)]
    if t == "float":
        d += [("float", 0.5), ("intfloat", 2.0)]
    if t == "str":
        d += [("str", "a"), ("strspace", "a b")]
    if t.startswith("Literal["):
        d += [("str", "a")]
    if t == "bool":
        d += [("true", True), ("false", False)]
    if t.startswith("Optional["):
        d += [("none", A.NoneStr)]
    return d


MARKERS = [("plain", ""), ("pk", "[PK] "), ("fk", "[FK(other_tbl.id)] ")]
COLNAMES = ["alpha", "id", "dataset_name", "x_id", "größe", "from_", "type"]  # the last two: a keyword plus underscore, a builtin


def sigma():
    out = []
    for t in TYPES:
        for dk, dv in sql_defaults(t):
            for mk, m in MARKERS:
                if mk == "pk" and (t.startswith("Optional[") or t in ("dict", "bool", "float")):
                    continue
                p = OrderedDict()
                p["doc"] = m + "the value"
                p["typ"] = t
                if dk != "absent":
                    p["default"] = dv
                out.append(((t, dk, mk), p))
    return out


SMALL_KEYS = [("int", "absent", "plain"), ("int", "absent", "pk"), ("str", "str", "plain"), ("str", "absent", "pk"), ("Optional[float]", "none", "plain"),
              ("bool", "false", "plain"), ("Literal['a', 'b', 'c']", "str", "plain"), ("int", "int", "fk"), ("Optional[str]", "absent", "plain"), ("float", "float", "plain")]

CONFIGS = [dict(style=s, force_pk_id=f) for s in F.STYLES for f in (False, True)]


def n_pk(kinds):
    return sum(1 for k in kinds if k[2] == "pk")


def _space(tier):
    full = sigma()
    table = dict(full)
    small = [(k, table[k]) for k in SMALL_KEYS]
    for (kind, p), name in itertools.product(full, COLNAMES):
        yield dict(kinds=[list(kind)], names=[name]), A.mk_ir([(name, p)], None, "Summary line.", name="Cfg")
    namesets = [["alpha", "beta", "gamma"], ["beta", "id", "gamma"], ["dataset_name", "beta", "gamma"], ["alpha", "x_id", "dataset_name"]]
    for k in (2, 3) if tier == "quick" else (2, 3, 4):
        for tup in itertools.product(small, repeat=k):
            if n_pk([x[0] for x in tup]) > 1:
                continue
            for ns in (namesets if k <= 3 else namesets[:1]):
                names = (ns + ["delta"])[:k]
                yield dict(kinds=[list(x[0]) for x in tup], names=names), A.mk_ir([(n, p) for n, (_, p) in zip(names, tup)], None, "Summary line.", name="Cfg")


def cases(tier, seed):
    for key, ir in _space(tier):
        yield dict(key=key, ir=F.ir_to_json(ir))


def worker_init(tier, seed):
    O.selfcheck()


def reference(ir, force_pk_id):
    """documented primary-key inference (cdd.sqlalchemy.utils.emit_utils.ensure_has_primary_key) as a reference model"""
    ir = deepcopy(ir)
    params = ir["params"]
    if any((p.get("doc") or "").startswith("[PK]") for p in params.values()):
        return ir
    cands = [k for k in params if "_name" in k or "_id" in k or "id_" in k or k == "id"]

    def mark(k):
        params[k]["doc"] = "[PK] " + params[k]["doc"] if params[k].get("doc") else "[PK]"

    if not force_pk_id and len(cands) == 1:
        mark(cands[0])
    elif "id" in params:
        mark("id")
    else:
        params["id"] = OrderedDict((("doc", "[PK]"), ("typ", "int")))
    return ir


def count_pk(node):
    n = 0
    for sub in ast.walk(node):
        if isinstance(sub, ast.keyword) and sub.arg == "primary_key" and isinstance(sub.value, ast.Constant) and sub.value.value is True:
            n += 1
    return n


def run_config(ir, cfg):
    viol, results, outcomes = [], {}, set()
    exp = reference(ir, cfg["force_pk_id"])
    has_marker = any((p.get("doc") or "").startswith("[PK]") for p in ir["params"].values())
    for variant in VARIANTS:
        ctx = dict(check="sqlalchemy_roundtrip", variant=variant, style=cfg["style"], force_pk_id=cfg["force_pk_id"], explicit_pk=has_marker)
        try:
            node = F._stage("emit", F.emit_ast, variant, ir, cfg["style"], True, force_pk_id=cfg["force_pk_id"])
            text = F._stage("render", F.render, node)
            npk = count_pk(ast.parse(text))
            if npk != 1:
                sig = dict(ctx)
                sig.update(field="primary_keys", expected=1, observed=npk)
                viol.append(dict(sig=sig, expected="exactly one primary_key=True", observed=npk, detail=text))
            back = F.parse_text(variant, text)
        except F.HopError as e:
            sig = dict(ctx)
            sig.update(field=e.stage, expected="ok", observed="raises " + type(e.exc).__name__)
            ps = list(ir["params"].values())
            sig["typ_classes"] = ",".join(sorted({A.tclass(p.get("typ")) for p in ps}))
            viol.append(dict(sig=sig, expected="hop completes", observed=str(e)[:300], detail=e.text))
            outcomes.add(e.stage + "-raises")
            continue
        results[variant] = back
        vs = [v for v in O.compare(exp, back, dict(ignore_returns=True), ctx) if v["sig"].get("field") != "keys"]  # keys: C14's subject
        for v in vs:
            v["detail"] = text
            v["sig"]["marker"] = "?"
            if v["sig"].get("entry") == "param":
                v["sig"]["column"] = "id" if str(v.get("expected", "")).startswith("id.") else "other"
        viol.extend(vs)
        outcomes.add("ok" if not vs else "diff")
    # pairwise agreement
    for a, b in itertools.combinations(VARIANTS, 2):
        if a in results and b in results:
            ca, cb = O.canon_ir(results[a]), O.canon_ir(results[b])
            if ca != cb:
                sig = dict(check="sqlalchemy_variants_agree", a=a, b=b, style=cfg["style"], force_pk_id=cfg["force_pk_id"])
                diff = [i for i, (x, y) in enumerate(zip(ca[0], cb[0])) if x != y]
                sig["field"] = "n_columns" if len(ca[0]) != len(cb[0]) else "column"
                viol.append(dict(sig=sig, expected=repr(ca)[:300], observed=repr(cb)[:300]))
    return viol, outcomes


def run(case):
    ir = F.ir_from_json(case["ir"])
    cfgs = [case["cfg"]] if "cfg" in case else CONFIGS
    viol, outcomes = [], set()
    markers = ",".join(sorted({"pk" if (p.get("doc") or "").startswith("[PK]") else "fk" if (p.get("doc") or "").startswith("[FK") else "plain" for p in ir["params"].values()}))
    for cfg in cfgs:
        vs, oc = run_config(ir, cfg)
        outcomes |= oc
        for v in vs:
            if "marker" in v["sig"]:
                v["sig"]["marker"] = markers
            v["case"] = dict(key=case.get("key"), ir=case["ir"], cfg=cfg)
        viol.extend(vs)
    n = len(cfgs) * len(VARIANTS)
    return dict(outcome="+".join(sorted(outcomes)), transitions=2 * n, evaluations=n, violations=viol)


def describe(tier):
    return dict(
        rule="columns: 12 SQL type shapes x legal defaults x marker {none, [PK], [FK(..)]}; single columns under 4 names (plain, id, dataset_name, "
        "x_id); all ordered 2- and 3-tuples (thorough: 4) over a 10-kind collision alphabet with at most one [PK] under 4 name sets driving "
        "primary-key inference; each x 3 variants x 3 styles x force_pk_id; a case = (interface, variant, style, force_pk_id)",
        bounds=dict(types=TYPES, markers=[m[0] for m in MARKERS], colnames=COLNAMES, small=[list(k) for k in SMALL_KEYS], variants=VARIANTS),
        exhaustive=True,
        assumptions=["reference model of the documented primary-key inference (mc/checks/c05.py:reference)", "sqlalchemy itself is not installed: emitted code is analysed as AST, not executed"],
    )
