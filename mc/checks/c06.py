"""
C06 - emitted JSON-schema is valid, self-consistent and round-trips.

Exhaustive over JSON-representable interfaces with 0..3 parameters (plus covering sequences of 4..8 parameters); oracle: json.dumps,
Draft 2020-12 meta-schema (jsonschema), required <=> not Optional, every default validates against its own property schema,
Literal pattern accepts exactly the members (probe set), parse(emit(x)) == x (Literal members as a set).
"""
import itertools
from collections import OrderedDict
import json
import re

from mc import alphabets as A
from mc import core
from mc import formats as F
from mc import oracle as O

PROPERTY = "C06"

JSON_TYPES = ["int", "float", "str", "bool", "dict", "list", "Optional[int]", "Optional[float]", "Optional[str]", "Optional[bool]", "Optional[dict]", "Optional[list]",
              "Literal['a', 'b']", "Literal['a', 'b', 'c']", "Literal['b', 'a']", "Literal['x-y', 'p q']", "Literal['v1.5', 'a+b']", "Literal['a']", "Optional[Literal['a', 'b']]"]


def json_defaults(t):
    d = [("absent", None)]
    b = A.base_of(t)
    if b == "int":
        d += [("int", 5), ("zero", 0), ("negint", -5)]
    if b == "float":
        d += [("float", 0.5), ("intfloat", 2.0), ("int_under_float", 2), ("zero_under_float", 0), ("tinyfloat", 1e-07)]
    if b == "str":
        d += [("str", "a"), ("emptystr", "")]
        # strings whose text reads as another Python literal: they stay strings
        d += [("strdigits", "5"), ("strfloat", "0.5"), ("strtrue", "True"), ("strlist", "[]"), ("strset", "{1, 2}"), ("strquoted", "'x'")]
    if t.startswith("Literal["):
        d += [("str", sorted(O.literal_members(t))[0])]
    if b == "bool":
        d += [("true", True), ("false", False)]
    if t.startswith("Optional["):
        d += [("none", A.NoneStr)]
    if b == "dict":
        d += [("dictval", {"k": 1})]
    if b == "list":
        d += [("listval", [1, 2])]
    return d


DOCS = [("plain", "the value"), ("nodoc", None)]
HEADERS = [("one", "Summary line."), ("empty", ""), ("two", "Summary line.\n\nMore text.")]


def sigma():
    out = []
    for t in JSON_TYPES:
        for dk, dv in json_defaults(t):
            for ck, cv in DOCS:
                out.append(((t, dk, ck), A.make_param(t, dk, dv, ck, cv)))
    return out


SMALL_KEYS = [("int", "absent", "plain"), ("str", "str", "plain"), ("Optional[int]", "none", "plain"), ("Optional[str]", "absent", "nodoc"), ("bool", "false", "plain"),
              ("Literal['a', 'b', 'c']", "str", "plain"), ("Optional[dict]", "absent", "plain"), ("float", "intfloat", "nodoc"), ("list", "absent", "plain")]


# return entries that carry a default, falsy ones included (the description ends in a full stop: the default announcement follows it)
RETURNS_DEFAULT = [
    ("retdef_dot", OrderedDict((("doc", "the result."), ("typ", "int"), ("default", 7)))),
    ("retzero", OrderedDict((("doc", "the result."), ("typ", "int"), ("default", 0)))),
    ("retfalse", OrderedDict((("doc", "the result."), ("typ", "bool"), ("default", False)))),
    ("retfloat0", OrderedDict((("doc", "the result."), ("typ", "float"), ("default", 0.0)))),
    ("retemptystr", OrderedDict((("doc", "the result."), ("typ", "str"), ("default", "")))),
    ("rettrue", OrderedDict((("doc", "the result,"), ("typ", "bool"), ("default", True)))),
]


def _space(tier):
    full = sigma()
    for (hk, h), (rk, r) in itertools.product(HEADERS, RETURNS_DEFAULT):
        yield dict(kinds=[], ret=rk, hdr=hk), A.mk_ir([], r, h)
        yield dict(kinds=[list(SMALL_KEYS[0])], ret=rk, hdr=hk), A.mk_ir([("alpha", dict(full)[SMALL_KEYS[0]])], r, h)
        yield dict(kinds=[list(SMALL_KEYS[1]), list(SMALL_KEYS[4])], ret=rk, hdr=hk), A.mk_ir([("alpha", dict(full)[SMALL_KEYS[1]]), ("beta", dict(full)[SMALL_KEYS[4]])], r, h)
    table = dict(full)
    small = [(k, table[k]) for k in SMALL_KEYS]
    for (hk, h), (rk, r) in itertools.product(HEADERS, A.RETURNS + A.RETURNS_PARTIAL):
        yield dict(kinds=[], ret=rk, hdr=hk), A.mk_ir([], r, h)
    # every return kind (also description-only / type-only entries) under every header, next to one and two parameters
    for (kind, p), (hk, h), (rk, r) in itertools.product(small[:3], HEADERS, A.RETURNS[2:] + A.RETURNS_PARTIAL):
        yield dict(kinds=[list(kind)], ret=rk, hdr=hk), A.mk_ir([("alpha", p)], r, h)
        yield dict(kinds=[list(kind), list(small[0][0])], ret=rk, hdr=hk), A.mk_ir([("alpha", p), ("beta", small[0][1])], r, h)
    for (kind, p), (hk, h), (rk, r) in itertools.product(full, HEADERS, A.RETURNS[:2]):
        yield dict(kinds=[list(kind)], ret=rk, hdr=hk), A.mk_ir([("alpha", p)], r, h)
    for k in (2, 3) if tier == "quick" else (2, 3, 4):
        for tup in itertools.product(small, repeat=k):
            yield dict(kinds=[list(x[0]) for x in tup], ret="noret", hdr="one"), A.mk_ir([(n, p) for n, (_, p) in zip(A.NAMES, tup)], None, "Summary line.")
    # covering sequences of 4..8 parameters: each kind of the full alphabet at each position once (cyclic shifts)
    names8 = ["p%d" % i for i in range(8)]
    for n in range(4, 9):
        for shift in range(len(full)):
            tup = [full[(shift + i * 7) % len(full)] for i in range(n)]
            yield dict(kinds=[list(x[0]) for x in tup], ret="noret", hdr="one", cover=[n, shift]), A.mk_ir([(nm, p) for nm, (_, p) in zip(names8, tup)], None, "Summary line.")


def cases(tier, seed):
    for key, ir in _space(tier):
        yield dict(key=key, ir=F.ir_to_json(ir))


def worker_init(tier, seed):
    O.selfcheck()
    core.add_deps()
    import jsonschema  # noqa


def probes(members):
    ms = sorted(members)
    out = set(ms)
    for m in ms:
        out.update({m + "x", "x" + m, m + m, m.upper() + "_"})
    out.update({"", "x", "".join(ms), "|".join(ms)})
    return sorted(out)


def run(case):
    import jsonschema

    import cdd.json_schema.emit
    import cdd.json_schema.parse
    from copy import deepcopy

    ir = F.ir_from_json(case["ir"])
    viol = []
    ctx = dict(check="json_schema", header="empty" if not ir["doc"] else "text", ret="ret" if ir["returns"] else "noret")

    def v(clause, expected, observed, **extra):
        sig = dict(ctx)
        sig.update(clause=clause)
        sig.update(extra)
        viol.append(dict(sig=sig, expected=expected, observed=observed))

    try:
        schema = cdd.json_schema.emit.json_schema(deepcopy(ir), "https://example.com/cfg.schema.json")
    except Exception as e:
        v("emit_raises", "a schema", "%s: %s" % (type(e).__name__, e), exc=type(e).__name__)
        return dict(outcome="emit-raises", transitions=1, violations=viol)
    try:
        text = json.dumps(schema)
    except Exception as e:
        v("not_serialisable", "json.dumps works", "%s: %s" % (type(e).__name__, e), exc=type(e).__name__)
        return dict(outcome="not-json", transitions=1, violations=viol, detail=repr(schema))
    schema_j = json.loads(text)
    try:
        jsonschema.Draft202012Validator.check_schema(schema_j)
    except jsonschema.exceptions.SchemaError as e:
        v("invalid_schema", "valid draft 2020-12 schema", str(e.message)[:200], path="/".join(map(str, list(e.absolute_path)[-1:])), validator=str(e.validator))
    req = schema_j.get("required", [])
    props = schema_j.get("properties", {})
    if list(props) != list(ir["params"]):
        v("property_names", list(ir["params"]), list(props))
    for name, p in ir["params"].items():
        t = p.get("typ")
        pclass = dict(typ_class=A.tclass(t), default_kind=A.vkind(p.get("default", O.ABSENT)))
        is_opt = bool(t) and t.startswith("Optional[")
        if (name in req) != (not is_opt):
            v("required_vs_optional", "required" if not is_opt else "not required", "required" if name in req else "not required", **pclass)
        if req.count(name) > 1:
            v("required_duplicated", 1, req.count(name), **pclass)
        prop = props.get(name)
        if prop is None:
            continue
        if "default" in prop:
            try:
                ok = jsonschema.Draft202012Validator(prop).is_valid(prop["default"])
            except Exception as e:
                ok = "error %s" % type(e).__name__
            if ok is not True:
                v("default_invalid_for_own_schema", "default validates against %r" % ({k: x for k, x in prop.items() if k != "default"},), repr(prop["default"]), ok=str(ok),
                  metachars=isinstance(prop["default"], str) and any(ch in prop["default"] for ch in ".^$*+?{}[]\\|()"), **pclass)
        members = O.literal_members(A.base_of(t)) if t else None
        if members is not None:
            pat = prop.get("pattern")
            if not isinstance(pat, str):
                v("literal_without_pattern", "a pattern", repr(pat), **pclass)
            else:
                wrong = [s for s in probes(members) if bool(re.search(pat, s)) != (s in members)]
                if wrong:
                    rej = [s for s in wrong if s in members]
                    v("literal_pattern_inexact", "accepts exactly %s" % sorted(members), "pattern %r wrong on %r" % (pat, wrong[:6]),
                      kind="rejects_member" if rej else "accepts_non_member", n_members=len(members),
                      metachars=any(ch in m for m in members for ch in ".^$*+?{}[]\\|()"), **pclass)
    # round trip
    try:
        back = cdd.json_schema.parse.json_schema(deepcopy(schema_j))
    except Exception as e:
        v("parse_raises", "an interface", "%s: %s" % (type(e).__name__, e), exc=type(e).__name__)
        return dict(outcome="parse-raises", transitions=2, violations=viol)
    c = dict(ctx)
    c["clause"] = "roundtrip"
    for d in O.compare(ir, back, dict(literal_as_set=True), c):
        d["detail"] = text
        viol.append(d)
    if O.normdoc(ir["doc"], False) not in O.normdoc(back.get("doc"), False):
        v("roundtrip_header", ir["doc"], back.get("doc"))
    return dict(outcome="ok" if not viol else "diff", transitions=2, violations=viol)


def describe(tier):
    return dict(
        rule="interfaces over 15 JSON-representable type shapes x legal defaults x doc/no-doc: all with 0 and 1 parameter x 3 headers (incl. empty) x "
        "every return kind (none, full, with default, str, long, description-only, type-only); all ordered 2- and 3-tuples (thorough: 4) over a 9-kind collision alphabet; covering sequences of 4..8 parameters "
        "(every kind at every position); a case = one interface; trivial = the parameterless ones",
        bounds=dict(types=JSON_TYPES, small=[list(k) for k in SMALL_KEYS], headers=[h[0] for h in HEADERS]),
        exhaustive=True,
        assumptions=["jsonschema 4.26 Draft202012Validator as the meta-schema oracle; re.search as the semantics of JSON-schema 'pattern'",
                     "the return entry is folded into the description text by the emitter; the parser recovers it from there and it is compared like a parameter"],
    )
