"""
C07 - doctrans changes only docstrings and annotations, never the program.

Exhaustive over the program alphabet (mc/programs.py: all single definitions, all ordered pairs over a 12-definition sub-alphabet,
with equal or distinct names) x 12 configurations (3 target styles x annotations on/off x word-wrap on/off); doctrans applied 1..3
times (closes when a run changes nothing).  Oracle clauses: result parses; erased ASTs equal; comment tokens equal; every line outside
definition headers/docstrings/annotated assignments byte-identical; under injected faults the file is unchanged; step budget.
"""
import ast
import io
import itertools
import os
import shutil
import sys
import tempfile
import tokenize

from mc import fuel
from mc import programs as P

PROPERTY = "C07"

CONFIGS = [dict(style=s, type_annotations=ta, no_word_wrap=nw) for s in ("rest", "google", "numpydoc") for ta in (True, False) for nw in (None, True)]
FUEL = 3_000_000


def cases(tier, seed):
    bodies = ["docstring_only", "pass", "two_stmts", "comment_block"] if tier == "quick" else None
    for key, src in P.single_programs(bodies=bodies):
        kind_, header_, docstyle_, body_ = key["defs"][0]
        if tier == "quick" and kind_ in ("in_method", "under_if", "under_try") and (body_ != "pass" or header_ not in ("annotated", "positional", "defaults", "annotated_nodefault") or docstyle_ not in ("none", "rest", "google", "numpydoc")):
            continue  # deeply indented definitions: quick tier on four headers x four docstring shapes
        if tier == "quick" and docstyle_ in P.DOCSTYLES[6:9] and (body_ != "pass" or header_ in ("noparams", "varargs", "multiline", "callable_ann")):
            continue  # partial / reversed documentation: quick tier on one body and on the headers with two documentable parameters
        if tier == "quick" and header_ in P.RET_HEADERS and (kind_ not in ("function", "method", "async_function", "nested") or body_ not in ("pass", "docstring_only")):
            continue  # bracketed return annotations: quick tier on four kinds and the two shortest bodies
        if tier == "quick" and (docstyle_ in P.DOCSTYLES[9:] or body_ == "docstring_only") and (
                kind_ not in ("function", "method", "nested", "class_attrs") or body_ not in ("pass", "docstring_only")
                or header_ not in ("noparams", "positional", "defaults", "annotated", "annotated_nodefault", "kwonly") + tuple(P.RET_HEADERS)):
            continue  # stubs and docstrings that become empty: quick tier on four kinds and six headers (plus the bracketed-return ones)
        yield dict(kind="program", key=key)
    for key, src in P.pair_programs():
        yield dict(kind="program", key=key)
    # file-level layout variants of the sub-alphabet, and one-line definitions
    for defs in P.SUB:
        for layout in P.LAYOUTS[1:]:
            yield dict(kind="program", key=dict(defs=[defs], layout=layout))
    for name, _src in P.ONE_LINERS:
        yield dict(kind="program", key=dict(oneliner=name))
    # modules written by the library's own emitters
    from mc.checks import c19

    for fmt, symbol, style in itertools.product(EMITTED_FORMATS, list(c19.SYMBOLS), EMITTED_STYLES):
        yield dict(kind="program", key=dict(emitted=[fmt, symbol, style]))
    # fault-point enumeration on a subset
    for defs in P.SUB[:10] if tier == "quick" else P.SUB:
        for cfg in (CONFIGS[0], CONFIGS[6]) if tier == "quick" else CONFIGS[::2]:
            yield dict(kind="faults", key=dict(defs=[defs]), cfg=cfg)


# ---- reference transformer: erase docstrings / annotations / type comments -----------------------------------------------------


class Erase(ast.NodeTransformer):
    def _body(self, node):
        if node.body and isinstance(node.body[0], ast.Expr) and isinstance(node.body[0].value, ast.Constant) and isinstance(node.body[0].value.value, str):
            node.body = node.body[1:] or [ast.Pass()]
        return node

    def visit_Module(self, node):
        self.generic_visit(node)
        return self._body(node)

    def visit_ClassDef(self, node):
        self.generic_visit(node)
        return self._body(node)

    def _fn(self, node):
        self.generic_visit(node)
        node.returns = None
        node.type_comment = None
        for a in node.args.posonlyargs + node.args.args + node.args.kwonlyargs + [x for x in (node.args.vararg, node.args.kwarg) if x]:
            a.annotation = None
            a.type_comment = None
        return self._body(node)

    visit_FunctionDef = _fn
    visit_AsyncFunctionDef = _fn

    def visit_AnnAssign(self, node):
        self.generic_visit(node)
        if node.value is None:
            return ast.Expr(value=ast.Name(id="__annotation_only__%s" % ast.dump(node.target), ctx=ast.Load()))
        return ast.Assign(targets=[node.target], value=node.value, type_comment=None)

    def visit_Assign(self, node):
        self.generic_visit(node)
        node.type_comment = None
        return node


def erased_dump(src):
    tree = Erase().visit(ast.parse(src))
    # a body that held only a docstring becomes `pass`; a body that was `pass` after a removed docstring stays `pass`
    return ast.dump(tree)


def comments(src):
    out = []
    try:
        for tok in tokenize.generate_tokens(io.StringIO(src).readline):
            if tok.type == tokenize.COMMENT:
                out.append(tok.string)
    except (tokenize.TokenError, IndentationError, SyntaxError):
        out.append("<untokenizable>")
    return out


def other_lines(src):
    """lines that are neither in a definition header, nor in a docstring, nor an annotated/plain assignment in a class or module body"""
    tree = ast.parse(src)
    skip = set()
    for node in ast.walk(tree):
        if isinstance(node, (ast.FunctionDef, ast.AsyncFunctionDef)):
            first = node.body[0].lineno
            for ln in range(node.lineno, max(node.lineno, first - 1) + 1):
                skip.add(ln)
            if first == node.lineno:
                skip.add(node.lineno)
            else:
                # header may span several lines up to the line before the first body statement; blank/comment lines between are kept
                hdr_end = node.lineno
                lines = src.split("\n")
                depth = 0
                for ln in range(node.lineno, first):
                    text = lines[ln - 1]
                    depth += text.count("(") + text.count("[") - text.count(")") - text.count("]")
                    hdr_end = ln
                    if depth <= 0 and text.rstrip().endswith(":"):
                        break
                skip.difference_update(range(hdr_end + 1, first))
        if isinstance(node, (ast.FunctionDef, ast.AsyncFunctionDef, ast.ClassDef, ast.Module)):
            if node.body and isinstance(node.body[0], ast.Expr) and isinstance(node.body[0].value, ast.Constant) and isinstance(node.body[0].value.value, str):
                d = node.body[0]
                skip.update(range(d.lineno, d.end_lineno + 1))
        if isinstance(node, ast.AnnAssign) or (isinstance(node, ast.Assign) and isinstance(getattr(node, "parent_is_class", None), type(None))):
            if isinstance(node, ast.AnnAssign):
                skip.update(range(node.lineno, node.end_lineno + 1))
    # plain assignments directly in a class body may gain an annotation
    for node in ast.walk(tree):
        if isinstance(node, (ast.ClassDef, ast.Module)):
            for st in node.body:
                if isinstance(st, ast.Assign):
                    skip.update(range(st.lineno, st.end_lineno + 1))
    return [l for i, l in enumerate(src.split("\n"), 1) if i not in skip and l.strip()]


# ---- running -------------------------------------------------------------------------------------------------------------------


def _doctrans(path, cfg):
    import cdd.compound.doctrans

    return cdd.compound.doctrans.doctrans(path, cfg["style"], cfg["type_annotations"], cfg["no_word_wrap"])


def header_class(key):
    hs = sorted({d[1] for d in key.get("defs", [])})
    return ",".join(hs)


def check_after(before, after, ctx, rnd):
    """-> violations comparing a file before/after one doctrans run"""
    viol = []

    def v(clause, expected, observed, **extra):
        sig = dict(ctx)
        sig.update(clause=clause, round=min(rnd, 2))
        sig.update(extra)
        viol.append(dict(sig=sig, expected=expected, observed=observed))

    try:
        ast.parse(after)
    except SyntaxError as e:
        v("result_does_not_parse", "valid Python", "SyntaxError: %s | %s" % (e.msg, (e.text or "").strip()[:80]))
        return viol
    try:
        a, b = erased_dump(before), erased_dump(after)
    except Exception as e:
        v("erase_failed", "erasable", repr(e))
        return viol
    if a != b:
        i = next((k for k, (x, y) in enumerate(zip(a, b)) if x != y), min(len(a), len(b)))
        v("erased_ast_differs", a[max(0, i - 70): i + 50], b[max(0, i - 70): i + 50], what=_what(a, b, i))
    ca, cb = comments(before), comments(after)
    if ca != cb:
        v("comments_differ", ca, cb, how="lost" if len(cb) < len(ca) else "gained" if len(cb) > len(ca) else "changed")
    if ("\r\n" in before) != ("\r\n" in after):
        v("line_endings_changed", "CRLF" if "\r\n" in before else "LF", "CRLF" if "\r\n" in after else "LF")
    la, lb = other_lines(before.replace("\r\n", "\n")), other_lines(after.replace("\r\n", "\n"))
    if la != lb:
        missing = [l for l in la if l not in lb][:3]
        added = [l for l in lb if l not in la][:3]
        v("other_lines_differ", missing or la[:3], added or lb[:3], how="lost" if missing and not added else "added" if added and not missing else "changed")
    return viol


def _what(a, b, i):
    """classify the first difference of two erased dumps by the nearest field name before it"""
    import re

    m = re.findall(r"([a-z_]+)=", a[:i])
    return m[-1] if m else "?"


EMITTED_FORMATS = ["class", "function", "argparse", "pydantic", "sqlalchemy", "sqlalchemy_table"]
EMITTED_STYLES = ["rest", "google", "numpydoc"]


def emitted_source(fmt, symbol, style):
    """a module as the library's own emitters write it (the input doctrans gets when it follows gen / sync / exmod)"""
    import cdd.shared.emit.file
    from mc import formats as F
    from mc.checks import c19

    ir = c19.symbol_ir(symbol)
    ir["returns"] = None
    node = F.emit_ast(fmt, ir, style, False)
    if isinstance(node, ast.FunctionDef) and fmt == "function":
        node.name = "fn"
    mod = ast.Module(body=[ast.Import(names=[ast.alias(name="os", asname=None)]), node], type_ignores=[])
    d = tempfile.mkdtemp(prefix="c07e_")
    try:
        p = os.path.join(d, "e.py")
        cdd.shared.emit.file.file(mod, p, mode="wt", skip_black=False)
        with open(p, "rt") as f:
            return f.read()
    finally:
        shutil.rmtree(d, ignore_errors=True)


def source_of(key):
    if "emitted" in key:
        return emitted_source(*key["emitted"])
    if "oneliner" in key:
        return P.PRELUDE + dict(P.ONE_LINERS)[key["oneliner"]] + P.POSTLUDE
    return P.apply_layout(P.render_program(key), key.get("layout", "lf"))


_BACKSTOPS = [0]  # per worker process: how often the 20 s backstop fired


def run_program(key, cfgs):
    if _BACKSTOPS[0] >= 3:
        # this worker has already reported three runs that did not come back: the check fails; every further such run would cost another 20 s
        return [], 0, {"skipped-after-backstops"}
    src = source_of(key)
    viol, transitions, outcomes = [], 0, set()
    d = tempfile.mkdtemp(prefix="c07_")
    path = os.path.join(d, "m.py")
    try:
        for cfg in cfgs:
            ctx = dict(check="doctrans", style=cfg["style"], type_annotations=cfg["type_annotations"], headers=header_class(key), n_defs=len(key.get("defs", [1])),
                       layout=key.get("layout", key.get("oneliner", "emitted:" + key["emitted"][0] if "emitted" in key else "lf")))
            with open(path, "wt", newline="") as f:
                f.write(src)
            cur = src
            seen = {src}
            for rnd in (1, 2, 3):
                transitions += 1
                outcome, val = run_with_backstop(_doctrans, path, cfg)
                with open(path, "rt", newline="") as f:
                    after = f.read()
                if outcome == "exhausted":
                    _BACKSTOPS[0] += 1
                    sig = dict(ctx)
                    sig.update(clause="fuel_exhausted", round=min(rnd, 2))
                    viol.append(dict(sig=sig, expected="terminates (20 s backstop; C11 decides termination with a step budget)", observed="backstop hit", case=dict(kind="program", key=key, cfg=cfg)))
                    outcomes.add("exhausted")
                    break
                if outcome == "raises":
                    outcomes.add("raises")
                    if after != cur:
                        sig = dict(ctx)
                        sig.update(clause="changed_although_raised", round=min(rnd, 2), exc=type(val).__name__)
                        viol.append(dict(sig=sig, expected="file byte-identical after %s" % type(val).__name__, observed="file changed", case=dict(kind="program", key=key, cfg=cfg)))
                    break
                for x in check_after(cur, after, ctx, rnd):
                    x["case"] = dict(kind="program", key=key, cfg=cfg)
                    x["detail"] = after
                    viol.append(x)
                if after == cur:
                    outcomes.add("closed@%d" % rnd)
                    break
                if any(x["sig"]["clause"] in ("result_does_not_parse",) for x in viol if x["case"].get("cfg") == cfg):
                    outcomes.add("broken")
                    break
                cur = after
                seen.add(after)
            else:
                outcomes.add("still-changing@3")
    finally:
        shutil.rmtree(d, ignore_errors=True)
    # one report per signature and program
    uniq, out = set(), []
    for x in viol:
        k = repr(sorted(x["sig"].items()))
        if k not in uniq:
            uniq.add(k)
            out.append(x)
    return out, transitions, outcomes


# ---- fault-point enumeration -------------------------------------------------------------------------------------------------


class Backstop(BaseException):
    pass


def run_with_backstop(f, *a):
    """Termination is C11's subject (deterministic fuel over the same programs); here only a generous wall-clock backstop keeps the
    harness from hanging - hitting it is reported like an exhausted budget"""
    import signal

    def on_alarm(signum, frame):
        raise Backstop()

    old = signal.signal(signal.SIGALRM, on_alarm)
    signal.setitimer(signal.ITIMER_REAL, 20.0)
    try:
        try:
            return "returns", f(*a)
        except Backstop:
            return "exhausted", None
        except Exception as e:
            return "raises", e
    finally:
        signal.setitimer(signal.ITIMER_REAL, 0)
        signal.signal(signal.SIGALRM, old)


class InjectedFault(Exception):
    pass


def run_faults(key, cfg):
    """discover every cdd function entered by a clean run, then re-run once per function raising at its first entry"""
    base = fuel.cdd_dir()
    src = P.render_program(key)
    d = tempfile.mkdtemp(prefix="c07f_")
    path = os.path.join(d, "m.py")
    viol, transitions = [], 0
    try:
        entered = []

        def discover(frame, event, arg):
            if event == "call" and frame.f_code.co_filename.startswith(base):
                k = (os.path.relpath(frame.f_code.co_filename, base), frame.f_code.co_name)
                if k not in entered and not frame.f_code.co_name.startswith("<"):
                    entered.append(k)
            return None

        with open(path, "wt") as f:
            f.write(src)
        if _BACKSTOPS[0] >= 3:
            return [], 0, 0  # see run_program
        sys.settrace(discover)
        try:
            o, _val = run_with_backstop(_doctrans, path, cfg)  # (catches what doctrans raises; a run that does not come back is cut after 20 s)
        finally:
            sys.settrace(None)
        if o == "exhausted":
            _BACKSTOPS[0] += 1
            sig = dict(check="doctrans", clause="fuel_exhausted", faults=True, style=cfg["style"], type_annotations=cfg["type_annotations"])
            return [dict(sig=sig, expected="terminates (20 s backstop; C11 decides termination with a step budget)", observed="backstop hit", case=dict(kind="faults", key=key, cfg=cfg))], 1, 0
        for target in entered:
            with open(path, "wt") as f:
                f.write(src)
            fired = [False]

            def inject(frame, event, arg, target=target, fired=fired):
                if event == "call" and not fired[0] and frame.f_code.co_name == target[1] and frame.f_code.co_filename.endswith(target[0]):
                    fired[0] = True
                    raise InjectedFault("%s:%s" % target)
                return None

            transitions += 1
            sys.settrace(inject)
            raised = None
            try:
                try:
                    o, val = run_with_backstop(_doctrans, path, cfg)
                    if o == "raises":
                        raised = val
                    elif o == "exhausted":
                        _BACKSTOPS[0] += 1
                        break
                except BaseException as e:  # noqa
                    raised = e
            finally:
                sys.settrace(None)
            with open(path, "rt") as f:
                after = f.read()
            if raised is not None and after != src:
                sig = dict(check="doctrans", clause="changed_although_raised", injected=True, style=cfg["style"], type_annotations=cfg["type_annotations"])
                viol.append(dict(sig=sig, expected="file byte-identical when doctrans raises (fault injected at %s:%s)" % target, observed="file changed", case=dict(kind="faults", key=key, cfg=cfg)))
                break
            if raised is None and fired[0]:
                # the fault was swallowed: the run completed; the normal invariants must hold
                ctx = dict(check="doctrans", style=cfg["style"], type_annotations=cfg["type_annotations"], headers=header_class(key), n_defs=1, injected=True)
                for x in check_after(src, after, ctx, 1):
                    x["case"] = dict(kind="faults", key=key, cfg=cfg)
                    viol.append(x)
    finally:
        sys.settrace(None)
        shutil.rmtree(d, ignore_errors=True)
    return viol, transitions, len(entered)


def run(case):
    if case["kind"] == "faults":
        viol, transitions, npoints = run_faults(case["key"], case["cfg"])
        uniq, out = set(), []
        for x in viol:
            k = repr(sorted(x["sig"].items()))
            if k not in uniq:
                uniq.add(k)
                out.append(x)
        return dict(outcome="faults", transitions=transitions, evaluations=max(transitions, 1), violations=out, extra=dict(fault_points=npoints, fault_runs=transitions))
    cfgs = [case["cfg"]] if "cfg" in case else CONFIGS
    viol, transitions, outcomes = run_program(case["key"], cfgs)
    return dict(outcome="+".join(sorted(outcomes)), transitions=transitions, evaluations=len(cfgs), violations=viol)


def describe(tier):
    n1 = sum(1 for c in cases(tier, 0) if c["kind"] == "program" and len(c["key"].get("defs", [])) == 1 and "layout" not in c["key"])
    n2 = sum(1 for _ in P.pair_programs())
    return dict(
        rule="programs: all {n1} single definitions ({k} kinds x {h} header shapes x {ds} docstring shapes x {b} bodies; the quick tier crosses the later additions with fewer kinds and bodies, see cases()) and all {n2} ordered pairs over a "
        "12-definition sub-alphabet (same/different names), each between a prelude and a postlude with comments; x 12 configurations; doctrans "
        "applied up to 3 times (stops when a run changes nothing); plus fault-point enumeration (an exception injected at the first entry of "
        "every cdd function a clean run enters) on a subset; a case = (program, configuration)".format(n1=n1, n2=n2, b=4 if tier == "quick" else 5, k=len(P.KINDS), h=len(P.HEADERS), ds=len(P.DOCSTYLES)),
        bounds=dict(kinds=P.KINDS, headers=P.HEADER_KEYS, docstyles=P.DOCSTYLES, bodies=[b[0] for b in P.BODIES], configurations=len(CONFIGS), rounds=3),
        exhaustive=True,
        assumptions=["'erased' = docstring statements removed, annotations/returns/type comments dropped, AnnAssign with value -> Assign (mc/checks/c07.py:Erase)",
                     "lines of annotated or plain assignments directly in a class/module body are exempt from the byte-identity clause (their annotations may move)",
                     "programs are syntactically simple: no lambdas or nested string prefixes in headers"],
    )
