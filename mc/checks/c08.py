"""
C08 - one conversion round reaches a fixpoint.

History exploration: for every interface x and every format f follow x -f-> x1 -f-> x2 -f-> x3 -f-> x4 on the real code
(each -f-> is emit, render, re-read, parse) and require x1 == x2 == x3 == x4 *exactly* (raw descriptions included).  The
search per (x, f) is a path in the state graph that must reach a self-loop after one step; it stops as soon as a state repeats.
"""
import itertools
import json

from mc import alphabets as A
from mc import formats as F
from mc import oracle as O

PROPERTY = "C08"

DOCS_TRIGGER = [
    ("t_number", "number of items"),
    ("t_whether", "whether to do it"),
    ("t_listof", "list of names"),
    ("t_or", "`a` or `b`"),
    ("t_defaults", "the value, defaults to 3"),
    ("t_int", "an integer count"),
    ("t_str", "string name of it"),
    ("t_optional", "Optional timeout in seconds"),
    ("t_optional_paren", "(Optional) timeout in seconds."),
]

JSON_TYPES = {"int", "float", "str", "bool", "dict", "list", "Optional[int]", "Optional[float]", "Optional[str]", "Optional[bool]", "Literal['a', 'b']", "Literal['a', 'b', 'c']"}
SQL_TYPES = {"int", "float", "str", "bool", "dict", "Optional[int]", "Optional[float]", "Optional[str]", "Optional[bool]", "Literal['a', 'b']", "Literal['a', 'b', 'c']"}

FORMATS = [
    ("docstring", "rest", {}),
    ("docstring", "google", {}),
    ("docstring", "numpydoc", {}),
    ("class", "rest", {}),
    ("pydantic", "rest", {}),
    ("function", "rest", dict(type_annotations=True, emit_as_kwonlyargs=False)),
    ("function", "rest", dict(type_annotations=False, emit_as_kwonlyargs=True)),
    ("argparse", "rest", {}),
    ("json_schema", "rest", {}),
    ("sqlalchemy", "rest", {}),
    ("sqlalchemy_table", "rest", {}),
    ("sqlalchemy_hybrid", "rest", {}),
]
ROUNDS = 4


def _alphabet():
    docs = A.DOCS + DOCS_TRIGGER
    full = A.sigma_param(docs=docs, types=A.TYPES + [None])
    return full


def defaults_for_untyped():
    return [("absent", None), ("int", 5), ("str", "a"), ("none", A.NoneStr)]


CORE_TYPES = ["int", "float", "str", "bool", "Optional[str]", "Optional[int]", "List[str]", "Literal['a', 'b']"]


def _space(tier):
    full = []
    for t in A.TYPES:
        for dk, dv in A.defaults_for(t):
            # quick tier: every description kind (incl. the trigger words) for eight core types; the other type shapes with four description kinds
            for ck, cv in (A.DOCS + DOCS_TRIGGER if tier != "quick" or t in CORE_TYPES else [d for d in A.DOCS if d[0] in ("plain", "long", "multiline", "nodoc")]):
                full.append(((t, dk, ck), A.make_param(t, dk, dv, ck, cv)))
    for dk, dv in defaults_for_untyped():
        for ck, cv in A.DOCS[:1] + DOCS_TRIGGER:
            full.append(((None, dk, ck), A.make_param(None, dk, dv, ck, cv)))
    small = A.sigma_int() + [((None, "int", "t_number"), A.make_param(None, "int", 5, "t_number", "number of items")),
                             (("str", "absent", "t_whether"), A.make_param("str", "absent", None, "t_whether", "whether to do it"))]
    yield from A.ir_space(full, small, 2 if tier == "quick" else 3, returns_1=(A.RETURNS[:2] + A.RETURNS[4:]) if tier == "quick" else (A.RETURNS[:3] + A.RETURNS[4:]), returns_n=A.RETURNS[:2])


def cases(tier, seed):
    for key, ir in _space(tier):
        yield dict(key=key, ir=F.ir_to_json(ir))


def worker_init(tier, seed):
    O.selfcheck()


def applicable(fmt, style, ir):
    types = {p.get("typ") for p in ir["params"].values()}
    if fmt == "json_schema":
        return types <= JSON_TYPES
    if fmt.startswith("sqlalchemy"):
        return types <= SQL_TYPES and all(not (str(p.get("typ")).startswith("Optional[") and p.get("default", A.NoneStr) != A.NoneStr) for p in ir["params"].values())
    if fmt == "docstring" and style in ("google", "numpydoc"):
        return A.defaults_form_suffix(ir)
    return True


def exact(ir):
    """exact observable content of an IR (no normalisation), JSON-able"""
    def e(p):
        return dict((k, O.normdefault(v) if k == "default" else v) for k, v in p.items())

    return dict(
        doc=ir.get("doc"),
        params=[[n, e(p)] for n, p in (ir.get("params") or {}).items()],
        returns=None if not ir.get("returns") else e(ir["returns"]["return_type"]),
    )


def diff_exact(a, b, ctx):
    """-> violations describing how b differs from a"""
    out = []

    def v(field, ek, ok, e, o, extra=None):
        sig = dict(ctx)
        sig.update(field=field, expected=ek, observed=ok)
        sig.update(extra or {})
        out.append(dict(sig=sig, expected="%s = %r" % (field, e), observed=repr(o)))

    if (a["doc"] or "") != (b["doc"] or ""):
        v("header", "stable", _strkind(a["doc"] or "", b["doc"] or ""), a["doc"], b["doc"])
    an, bn = [n for n, _ in a["params"]], [n for n, _ in b["params"]]
    if an != bn:
        v("names", "stable", "changed", an, bn)
    bp = dict(b["params"])
    entries = [(n, p, bp.get(n), "param") for n, p in a["params"]]
    if a["returns"] is not None or b["returns"] is not None:
        if a["returns"] is None or b["returns"] is None:
            v("returns", "stable", "appeared" if a["returns"] is None else "vanished", a["returns"], b["returns"])
        else:
            entries.append(("return_type", a["returns"], b["returns"], "return"))
    for n, p, q, entry in entries:
        if q is None:
            continue
        extra = dict(entry=entry, typ_class=A.tclass(p.get("typ")), default_kind=A.vkind(p.get("default", O.ABSENT)))
        if p.get("typ") != q.get("typ"):
            vv = dict(sig=dict(field="typ", expected=str(p.get("typ")), observed=str(q.get("typ"))))
            _abstract_typ(vv["sig"])
            v("typ", vv["sig"]["expected"], vv["sig"]["observed"], p.get("typ"), q.get("typ"), extra)
        if not O.same_default(p.get("default", O.ABSENT), q.get("default", O.ABSENT)):
            v("default", A.vkind(p.get("default", O.ABSENT)), A.vkind(q.get("default", O.ABSENT)), p.get("default", O.ABSENT), q.get("default", O.ABSENT), extra)
        if (p.get("doc") or "") != (q.get("doc") or ""):
            v("doc", "stable", _strkind(p.get("doc") or "", q.get("doc") or ""), p.get("doc"), q.get("doc"), extra)
        ka, kb = sorted(p.keys()), sorted(q.keys())
        if ka != kb and p.get("typ") == q.get("typ") and (p.get("doc") or "") == (q.get("doc") or "") and O.same_default(p.get("default", O.ABSENT), q.get("default", O.ABSENT)):
            v("keys", ",".join(ka), ",".join(kb), ka, kb, extra)
    return out


def _strkind(a, b):
    if b.startswith(a):
        return "grew"
    if a.startswith(b):
        return "shrank"
    if " ".join(a.split()) == " ".join(b.split()):
        return "whitespace_changed"
    return "changed"


def _abstract_typ(sig):
    e, o = sig["expected"], sig["observed"]
    if o == "None":
        kind = "lost"
    elif e == "None":
        kind = "inferred_" + A.tclass(o)
    elif o == "Optional[%s]" % e:
        kind = "wrapped_optional"
    elif e == "Optional[%s]" % o:
        kind = "unwrapped_optional"
    else:
        kind = "changed_to_" + A.tclass(o)
    sig["expected"], sig["observed"] = A.tclass(None if e == "None" else e), kind


def _live_key(ir):
    """everything the next round can see: parameters with their extension keys, returns, doc, and `_internal`"""
    import ast as _ast

    def canon(v):
        if isinstance(v, _ast.AST):
            return "AST:" + _ast.dump(v)
        if isinstance(v, dict):
            return tuple((str(k), canon(x)) for k, x in v.items())
        if isinstance(v, (list, tuple)):
            return tuple(canon(x) for x in v)
        return repr(v)

    return canon({k: v for k, v in ir.items()})


def run_one(ir, fmt, style, kw, rounds=ROUNDS):
    ctx = dict(check="fixpoint", fmt=fmt, style=style)
    if fmt == "function":
        ctx["type_annotations"] = kw["type_annotations"]
    states, cur, transitions, prev_live = [], ir, 0, None
    for r in range(1, rounds + 1):
        try:
            transitions += 1
            cur, text = F.hop(fmt, cur, style, True if fmt == "docstring" else False, **kw)
        except F.HopError as e:
            if r == 1:
                return [], "first-hop-raises", transitions  # not this property's subject (C02/C05/C06)
            sig = dict(ctx)
            sig.update(field=e.stage, expected="stable", observed="raises " + type(e.exc).__name__, round=min(r, 3))
            p1 = states[0]["params"]
            sig["typ_classes"] = ",".join(sorted({A.tclass(p.get("typ")) for _, p in p1}))
            sig["default_kinds"] = ",".join(sorted({A.vkind(p.get("default", O.ABSENT)) for _, p in p1}))
            return [dict(sig=sig, expected="round %d succeeds like round 1" % r, observed=str(e)[:300], detail=e.text)], "later-hop-raises", transitions
        # `_internal` stays in the live object (a real regeneration loop hands the parser's result to the emitter); exact() does not look at it
        states.append(exact(cur))
        if r >= 2:
            c = dict(ctx)
            c["round"] = min(r, 3)
            d = diff_exact(states[-2], states[-1], c)
            if d:
                p1 = states[0]["params"]
                for v in d:
                    v["detail"] = text
                    if v["sig"].get("field") in ("header", "names", "returns"):
                        v["sig"]["typ_classes"] = ",".join(sorted({A.tclass(p.get("typ")) for _, p in p1}))
                        v["sig"]["default_kinds"] = ",".join(sorted({A.vkind(p.get("default", O.ABSENT)) for _, p in p1}))
                        v["sig"]["doc_kinds"] = ",".join(sorted({"doc" if p.get("doc") else "nodoc" for _, p in p1}))
                return d, "drift@%d" % r, transitions
            if states[-1] == states[-2] and _live_key(cur) == prev_live:
                # self-loop of the whole live object (interface, extension keys and the carried `_internal`): the code is deterministic (C10 decides
                # that), so every later round repeats this one - the state space of this history is closed
                return [], "fixpoint@%d" % r, transitions
        prev_live = _live_key(cur)
    return [], "fixpoint", transitions


def run(case):
    ir = F.ir_from_json(case["ir"])
    fmts = [tuple(case["fmt"])] if "fmt" in case else FORMATS
    viol, outcomes, transitions, n = [], set(), 0, 0
    untyped = any(not p.get("typ") for p in ir["params"].values())
    for fmt, style, kw in fmts:
        if not applicable(fmt, style, ir):
            continue
        n += 1
        vs, outcome, t = run_one(ir, fmt, style, kw)
        transitions += t
        outcomes.add(outcome)
        for v in vs:
            v["case"] = dict(key=case.get("key"), ir=case["ir"], fmt=[fmt, style, kw])
            v["sig"]["untyped_param"] = untyped
            v["sig"].update(A.str_default_features(ir))
        viol.extend(vs)
    return dict(outcome="+".join(sorted(outcomes)), transitions=transitions, evaluations=max(n, 1), nontrivial=n, violations=viol)


def describe(tier):
    return dict(
        rule="interfaces: every single parameter over 16 type shapes + untyped x legal defaults x 12 description kinds (5 plain + 7 with "
        "type-hint trigger words) x 3 return kinds, plus all ordered pairs (thorough: triples) over a 13-kind collision alphabet incl. "
        "non-suffix defaults; each x 12 format variants where representable; 4 rounds each; a case = (interface, format); "
        "rounds are histories x -> x1 -> x2 -> x3 -> x4 on the real code",
        bounds=dict(formats=[[f, s, kw] for f, s, kw in FORMATS], rounds=ROUNDS, trigger_docs=[d[1] for d in DOCS_TRIGGER]),
        exhaustive=True,
        assumptions=["a failing first round is not a fixpoint violation (round-trip properties cover it); later rounds must succeed",
                     "exact comparison of raw descriptions, types, defaults (Python type and value) and keys"],
    )
