"""
C09 - the concrete syntax tree is lossless for every string.

Exhaustive enumeration of all token strings up to a length bound over a lexical alphabet, plus every Python
file of the repository and the complete single-edit neighbourhood (delete one line / append one token to one
line) of the smallest ones.  Oracle: concatenation identity for scanner and parser, and the line tiling.
"""
import itertools
import os

PROPERTY = "C09"
STATE_IS_CASE = True

SIGMA = ["\n", "    ", "'", '"', "'''", '"""', "#", "\\", "(", ")", "[", "]", "{", "}", ":", "=", "@", ";", ",", " ", "def ", "class ", "x", "\r\n", "\t", "\f"]
SIGMA_SMALL = ["\n", "'", '"""', "\\", "(", ")", "def ", ":", "#", "x"]
EDIT_TOKENS = ["'", '"', '"""', "'''", "(", ")", "\\", "#", ":", "["]

# line alphabet: realistic source lines (with indentation variants, trailing comments, continuations, decorators, open brackets);
# all sequences of <= L lines are enumerated - statement-level structure that token strings of length 4-5 cannot reach
LINES = [
    "",
    "x = 1",
    "    x = 1",
    "# c",
    "    # c \\",
    "@deco",
    "    @deco(1)",
    "def f(x):",
    "def f(x):  # noqa",
    "    def f(x):  # noqa",
    "    def g(y): # \\",
    "class A(B):  # c",
    "    return x",
    '    """doc"""',
    '    """',
    "x = (1,",
    "     2)  # c",
    "if x:",
    "    pass",
    "y = 'a#b' \\",
]

REPO = os.environ.get("CDD_REPO", "/repo")


def _bounds(tier):
    # (alphabet, max tokens, prefix length used for sharding)
    if tier == "quick":
        return dict(full_n=4, small_n=5, n_mut_files=12, max_file_bytes=15400, lines_n=4)
    return dict(full_n=5, small_n=7, n_mut_files=60, max_file_bytes=10**9, lines_n=5)


def _py_files():
    out = []
    for root, dirs, files in os.walk(os.path.join(REPO, "cdd")):
        dirs.sort()
        for f in sorted(files):
            if f.endswith(".py"):
                out.append(os.path.join(root, f))
    return out


def cases(tier, seed):
    b = _bounds(tier)
    # all strings shorter than the shard prefix, one block
    yield dict(kind="short", alpha="full", upto=2)
    yield dict(kind="short", alpha="small", upto=2)
    for pre in itertools.product(range(len(SIGMA)), repeat=2):
        yield dict(kind="block", alpha="full", prefix=list(pre), maxlen=b["full_n"])
    for pre in itertools.product(range(len(SIGMA_SMALL)), repeat=2):
        yield dict(kind="block", alpha="small", prefix=list(pre), maxlen=b["small_n"])
    for pre in itertools.product(range(len(LINES)), repeat=2):
        yield dict(kind="line_block", prefix=list(pre), maxlen=b["lines_n"])
    # the tree of a string must still be its tree after the tree has been *used*: every program is parsed, handed to the real docstring
    # rewriter (doctrans on a scratch copy, each style and direction), and parsed again
    from mc.checks import c11

    for name, _src in c11.PROGRAMS:
        yield dict(kind="reparse_after_use", program=name)
    files = _py_files()
    for f in files:
        if os.path.getsize(f) <= b["max_file_bytes"]:
            yield dict(kind="file", path=os.path.relpath(f, REPO))
    small = sorted(files, key=lambda p: (os.path.getsize(p), p))
    small = [p for p in small if os.path.getsize(p) > 200][: b["n_mut_files"]]
    for f in small:
        with open(f, "rt") as fh:
            nlines = len(fh.read().splitlines())
        for lo in range(0, nlines, 8):
            yield dict(kind="file_edits", path=os.path.relpath(f, REPO), lo=lo, hi=min(lo + 8, nlines))


def check_string(s):
    """-> list of (clause, expected, observed)"""
    from cdd.shared.cst import cst_parse
    from cdd.shared.cst_utils import cst_scanner

    out = []
    try:
        scanned = cst_scanner(s)
    except Exception as e:  # the property is total: every string
        return [("scanner_raises", "a list of chunks", "%s: %s" % (type(e).__name__, e))]
    joined = "".join(scanned)
    if joined != s:
        out.append(("scanner_concat", s, joined))
    try:
        nodes = cst_parse(s)
    except Exception as e:
        out.append(("parser_raises", "a tuple of nodes", "%s: %s" % (type(e).__name__, e)))
        return out
    joined = "".join(n.value for n in nodes)
    if joined != s:
        out.append(("parser_concat", s, joined))
    if nodes:
        if nodes[0].line_no_start != 1:
            out.append(("first_line", 1, nodes[0].line_no_start))
        prev_end = None
        for n in nodes:
            if prev_end is not None and n.line_no_start != prev_end:
                out.append(("tiling", prev_end, n.line_no_start))
                break
            prev_end = n.line_no_end
        for n in nodes:
            if n.line_no_end - n.line_no_start != n.value.count("\n"):
                out.append(("span", n.value.count("\n"), n.line_no_end - n.line_no_start))
                break
        if nodes[-1].line_no_end != 1 + s.count("\n"):
            out.append(("last_line", 1 + s.count("\n"), nodes[-1].line_no_end))
    elif s:
        out.append(("parser_concat", s, ""))
    return out


def _strings(case):
    if case["kind"] == "string":
        yield case["string"]
        return
    if case["kind"] in ("short", "block"):
        alpha = SIGMA if case["alpha"] == "full" else SIGMA_SMALL
        if case["kind"] == "short":
            for n in range(0, case["upto"]):
                for t in itertools.product(alpha, repeat=n):
                    yield "".join(t)
        else:
            pre = "".join(alpha[i] for i in case["prefix"])
            for n in range(0, case["maxlen"] - len(case["prefix"]) + 1):
                for t in itertools.product(alpha, repeat=n):
                    yield pre + "".join(t)
        return
    if case["kind"] == "line_block":
        pre = [LINES[i] for i in case["prefix"]]
        for n in range(0, case["maxlen"] - len(pre) + 1):
            for t in itertools.product(LINES, repeat=n):
                body = "\n".join(pre + list(t))
                yield body + "\n"
                if n == case["maxlen"] - len(pre):
                    yield body  # the same file without a final newline
        return
    with open(os.path.join(REPO, case["path"]), "rt") as f:
        src = f.read()
    if case["kind"] == "file":
        yield src
        return
    lines = src.splitlines(True)
    lo, hi = case.get("lo", 0), min(case.get("hi", len(lines)), len(lines))
    for i in range(lo, hi):
        yield "".join(lines[:i] + lines[i + 1 :])
    for i in range(lo, hi):
        body, nl = (lines[i][:-1], "\n") if lines[i].endswith("\n") else (lines[i], "")
        for tok in EDIT_TOKENS:
            yield "".join(lines[:i]) + body + tok + nl + "".join(lines[i + 1 :])


def run_reparse_after_use(case):
    import shutil
    import tempfile

    import cdd.compound.doctrans
    from mc.checks import c11

    src = dict(c11.PROGRAMS)[case["program"]]
    viol, n = [], 0
    d = tempfile.mkdtemp(prefix="c09_")
    try:
        for style in ("rest", "google", "numpydoc"):
            for ta in (True, False):
                n += 1
                first = list(check_string(src))
                p = os.path.join(d, "m_%s_%s.py" % (style, ta))
                with open(p, "wt") as f:
                    f.write(src)
                try:
                    cdd.compound.doctrans.doctrans(p, style, ta, False)
                except Exception:
                    pass
                for clause, exp, obs in check_string(src):
                    if (clause, exp, obs) not in first and not any(x["sig"]["check"] == clause for x in viol):
                        viol.append(dict(sig=dict(check=clause, after="doctrans of the same text"), case=dict(case, style=style, type_annotations=ta), expected=repr(exp)[:300], observed=repr(obs)[:300]))
    finally:
        shutil.rmtree(d, ignore_errors=True)
    return dict(outcome="violation" if viol else "ok:reparse_after_use", transitions=3 * n, evaluations=n, violations=viol, extra=dict(n_case_states=n - 1, strings=n))


def run(case):
    if case["kind"] == "reparse_after_use":
        return run_reparse_after_use(case)
    n = 0
    viol = []
    seen_clause = set()
    outcomes_nodes = 0
    first_bad = None
    for s in _strings(case):
        n += 1
        if first_bad is not None and n - first_bad > 40:
            break  # this block already fails the check: what is left of it adds nothing (and a defect that makes every later parse slower would keep the run from ever reporting)
        for clause, exp, obs in check_string(s):
            if first_bad is None:
                first_bad = n
            if clause in seen_clause:
                continue
            seen_clause.add(clause)
            viol.append(
                dict(
                    sig=dict(check=clause),
                    case=dict(kind="string", string=s),
                    expected=repr(exp)[:300],
                    observed=repr(obs)[:300],
                )
            )
    return dict(
        outcome="violation" if viol else "ok:" + case["kind"],
        transitions=2 * n,
        evaluations=n,
        nontrivial=max(n - 1, 0) if case["kind"] == "short" else n,  # the empty string is the trivial one
        violations=viol,
        extra=dict(n_case_states=n - 1, strings=n),
    )


def describe(tier):
    b = _bounds(tier)
    return dict(
        rule="every string of <= {full_n} tokens over the {a}-token lexical alphabet, every string of <= {small_n} tokens "
        "over the {s}-token quote/bracket/continuation sub-alphabet, 12 programs parsed, passed through doctrans (3 styles x 2 directions) and parsed again, every sequence of <= {lines_n} lines over a {nl}-line alphabet of realistic source lines (with and without a final newline), every .py file under cdd/ of <= {max_file_bytes} bytes, and for the {n_mut_files} "
        "smallest non-stub files every single-line deletion and every append of one of {e} tokens to one line; a case is one string; "
        "non-trivial = all of them (each is scanned and parsed by the real code and compared with the input)".format(
            a=len(SIGMA), s=len(SIGMA_SMALL), e=len(EDIT_TOKENS), nl=len(LINES), **b
        ),
        bounds=dict(alphabet=SIGMA, small_alphabet=SIGMA_SMALL, line_alphabet=LINES, edit_tokens=EDIT_TOKENS, **b),
        exhaustive=True,
        assumptions=[
            "small-scope hypothesis: scanner defects show on strings of few lexical tokens (the scanner's decisions depend only on "
            "quotes, brackets, backslash, '#', '@', ':' , 'def'/'class' words and newlines, all in the alphabet)",
            "str.count/str.join of CPython as the reference",
        ],
    )


def standalone(case):
    if case.get("kind") != "string":
        return None
    return (
        "from cdd.shared.cst import cst_parse\nfrom cdd.shared.cst_utils import cst_scanner\ns = {s!r}\n"
        "assert ''.join(cst_scanner(s)) == s, cst_scanner(s)\nnodes = cst_parse(s)\nassert ''.join(n.value for n in nodes) == s, nodes\n"
        "assert nodes[0].line_no_start == 1 and nodes[-1].line_no_end == 1 + s.count('\\n'), nodes\n"
        "assert all(n.line_no_end - n.line_no_start == n.value.count('\\n') for n in nodes), nodes\n"
    ).format(s=case["string"])
