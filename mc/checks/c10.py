"""
C10 - output is a deterministic function of the input alone.

Dimensions explored exhaustively within bounds: interpreter hash seed (fresh interpreter per seed) x call history (every sequence
of <= d earlier operations from the same alphabet, explored as a fork tree inside that interpreter) x operation.  Oracle: the
digest of an operation's output equals the reference (seed 0, empty history).
"""
import json
import os
import subprocess
import sys

PROPERTY = "C10"
MAX_REPORT = 30
VERIF = os.path.dirname(os.path.dirname(os.path.dirname(os.path.abspath(__file__))))


def _bounds(tier, seed):
    k = 16 if tier == "quick" else 48
    extra = 4 if tier == "quick" else 16
    # VERIF_SEED swaps the last `extra` seeds of the range for a block of its own, so a run always uses exactly k interpreters (one per core in the quick tier)
    seeds = list(range(k)) if not seed else list(range(k - extra)) + [seed * k + i for i in range(extra)]
    # histories and hash seeds are nearly orthogonal: the first `deep` seeds explore the full history tree, the others one level less
    return dict(seeds=seeds, depth=1 if tier == "quick" else 2, deep=4 if tier == "quick" else 8)


def cases(tier, seed):
    from mc import c10_ops

    b = _bounds(tier, seed)
    for i, s in enumerate(b["seeds"]):
        depth = b["depth"] if i < b["deep"] else b["depth"] - 1
        if depth == 0:
            yield dict(seed=s, depth=0)
        else:
            for op in c10_ops.OPS:  # one child interpreter per (seed, first operation): the tree below that operation
                yield dict(seed=s, depth=depth, first=op)


def child(seed, args, timeout=3600):
    env = dict(os.environ, PYTHONHASHSEED=str(seed), PYTHONDONTWRITEBYTECODE="1")
    env.pop("C10_KEEP_TEXT", None)
    p = subprocess.run([sys.executable, "-B", "-m", "mc.c10_child"] + args, cwd=VERIF, env=env, stdout=subprocess.PIPE, stderr=subprocess.PIPE, timeout=timeout)
    if p.returncode != 0 or not p.stdout:
        raise RuntimeError("c10 child failed: rc=%s %s" % (p.returncode, p.stderr.decode()[-500:]))
    return json.loads(p.stdout.decode())


_REF = {}


def reference():
    if not _REF:
        out = child(0, ["0"])
        for r in out["records"]:
            _REF[r["op"]] = r["digest"]
    return _REF


def worker_init(tier, seed):
    reference()


def run(case):
    ref = reference()
    if "path" in case:
        out = child(case["seed"], ["path", json.dumps(case["path"])])
        op = case["path"][-1]
        viol = []
        if out["digest"] != ref[op]:
            hist = case["path"][:-1]
            base = child(case["seed"], ["path", json.dumps([op])])["digest"] if hist else None
            if not hist:
                viol.append(dict(sig=dict(check="determinism", op=op, varies_with="hash_seed"), expected=ref[op], observed=out["digest"], detail=out["text"]))
            elif out["digest"] != base:
                viol.append(dict(sig=dict(check="determinism", op=op, varies_with="history", after=hist[-1], history_len=len(hist)), expected=base, observed=out["digest"], detail=out["text"]))
        return dict(outcome="replay", transitions=len(case["path"]), violations=viol)
    out = child(case["seed"], [str(case["depth"])] + ([case["first"]] if case.get("first") else []))
    recs = out["records"]
    by = {(tuple(r["history"]), r["op"]): r["digest"] for r in recs}
    viol, seen = [], set()
    for (hist, op), g in sorted(by.items(), key=lambda kv: (len(kv[0][0]), kv[0])):
        if not hist:
            if g != ref[op]:
                sig = dict(check="determinism", op=op, varies_with="hash_seed")
                if json.dumps(sig) not in seen:
                    seen.add(json.dumps(sig))
                    viol.append(dict(sig=sig, expected="digest %s (seed 0)" % ref[op], observed="digest %s (seed %s)" % (g, case["seed"]), case=dict(seed=case["seed"], path=[op])))
        else:
            base = by.get(((), op))
            if base is None and g != ref[op]:
                # this child explored only the tree below its first operation: get this seed's own empty-history digest of `op`
                base = child(case["seed"], ["path", json.dumps([op])])["digest"]
            if base is None:
                base = ref[op]
            if g != base:
                sig = dict(check="determinism", op=op, varies_with="history", after=hist[-1], history_len=len(hist))
                if json.dumps(sig) not in seen:
                    seen.add(json.dumps(sig))
                    viol.append(dict(sig=sig, expected="digest %s with empty history" % base, observed="digest %s after %s" % (g, list(hist)), case=dict(seed=case["seed"], path=list(hist) + [op])))
    probes = out["probes"]
    raised = sorted({r["op"] for r in recs if r.get("raised") and not r["history"]})
    for op in raised:
        # an operation that only ever raises observes nothing: that is a defect of this harness, reported like a violation so that it cannot go unnoticed
        viol.append(dict(sig=dict(check="harness_vacuous_operation", op=op), expected="the operation produces output", observed="raises on the unchanged input", case=dict(seed=case["seed"], path=[op])))
    return dict(
        outcome="ok" if not viol else "differs",
        transitions=len(recs),
        evaluations=len(recs),
        states=["%s|%s|%s" % (case["seed"], "/".join(h), o) for (h, o) in by],
        violations=viol,
        extra=dict(set_orders_set3=[",".join(probes["set3"])], set_orders_abc=[",".join(probes["set_abc"])], set_orders_set5=[",".join(probes["set5"])], max_history_len=case["depth"]),
    )


def finalize(cov, tier):
    cov["distinct_iteration_orders_observed"] = dict(set3=len(cov.get("set_orders_set3", [])), abc=len(cov.get("set_orders_abc", [])), set5_minus_2=len(cov.get("set_orders_set5", [])))


def describe(tier):
    from mc import c10_ops

    b = _bounds(tier, 0)
    return dict(
        rule="operations: {n} concrete calls (parsers on partially/permutedly documented signatures, emitters, import inference, gen, doctrans, "
        "sync, module-state touching calls); for each PYTHONHASHSEED in 0..{k} (+ a VERIF_SEED block) a fresh interpreter explores every call "
        "history of length <= {d} (the first {deep} seeds; the others one level less) as a fork tree and records the digest of every operation's output; a case = (seed, history, operation); "
        "reference = seed 0, empty history".format(n=len(c10_ops.OPS), k=len(b["seeds"]) - 1, d=b["depth"], deep=b["deep"]),
        bounds=dict(operations=list(c10_ops.OPS), seeds=len(b["seeds"]), history_depth=b["depth"], seeds_at_full_depth=b["deep"]),
        exhaustive=True,
        explanation="distinct_iteration_orders_observed reports how many different iteration orders of 3-element probe sets the explored seeds actually produced (3! = 6 possible)",
        assumptions=["hash seeds are sampled (0..K-1 plus a VERIF_SEED block); the number of distinct set orders they induce is measured, not assumed",
                     "os.listdir order (gen on a directory) is not varied in this revision"],
    )
