"""
C11 - every parse, emit and doctrans call terminates (within steps proportional to input size).

(a) all docstrings of <= N tokens over a docstring token alphabet through the docstring parser (both emit_default_doc) and
    the header/args/footer splitter; (b) interfaces whose header/description come from a whitespace alphabet x 3 styles x
    indent levels through the docstring emitter; (c) generated modules through doctrans applied 1, 2, 3 times.
Every call runs under a deterministic step budget B(n) = C0 + C1*n counted in line events of the cdd package (mc/fuel.py).
"""
import itertools
import os
import tempfile

from mc import alphabets as A
from mc import fuel

PROPERTY = "C11"
STATE_IS_CASE = True

C0, C1 = 60000, 3000  # budget in line events; measured maxima are written into the evidence (max_steps_per_char)

SIGMA_DOC = [
    "\n", "    ", " ", ":param a:", ":type a:", ":return:", ":rtype:", "Args:", "Returns:", "Raises:", "Parameters\n----------\n",
    "Returns\n-------\n", "a (int): ", "a : int", "*args", "**kwargs", "a", "int", "`", "```", ":", ".", ",", "Defaults to 5", "the value",
    " or ", " of ", "Example:", ":param *args:", ":param **kwargs:", "\t",
]

# whole-line units of an argument section (Google and NumPy): entries with and without a description / a type, header-like lines without a body, blank lines,
# continuation lines, a following section.  Every sequence of <= N units after the section header is one docstring.
UNITS = {
    "google": ("Summary.\n\nArgs:\n", ["  a:\n", "  b:\n", "  c (int): the c\n", "  d: the d\n", "  e (str):\n", "  Example:\n", "\n", "      continued here\n", "Returns:\n  int: the result\n", "Raises:\n"]),
    "numpydoc": ("Summary.\n\nParameters\n----------\n", ["a\n", "b\n", "c : int\n    the c\n", "d\n    the d\n", "e : str\n", "Example\n", "\n", "    continued here\n", "Returns\n-------\nint\n    the result\n", "Raises\n------\n"]),
}


WS = [
    ("empty", ""), ("space", " "), ("nl", "\n"), ("indent_x", "  \n x"), ("lead_blank", "\nSummary."), ("trail", "Summary.   "), ("two_blank", "\n\n"),
    ("tab", "\t"), ("plain", "Summary."), ("ws_then_text", "   \nText\n   "), ("header_only", "Args:"), ("trunc", ":param"), ("nl_space_nl", "\n \n"),
]


# prose alphabet for parameter descriptions: words the default/type machinery reacts to, in announcement and non-announcement forms
PROSE = [
    "the value", " ", ".", ",", "\n", "Defaults to 5", "defaults", "Defaults", "default is", "(default: 3)", "defaults to", "`", "```", "None",
    " of ", " or ", "List[str]", "(", ")", ":", "whether", "integer", "'a'", '"',
]


def _bounds(tier):
    return dict(n_tokens=3 if tier == "quick" else 4, doctrans_rounds=3, n_prose_tokens=2 if tier == "quick" else 3, n_units=4 if tier == "quick" else 5)


PROGRAMS = [
    ("fn_rest", 'def f(a, b):\n    """\n    Summary.\n\n    :param a: the a\n    :type a: ```int```\n\n    :param b: the b\n    :type b: ```str```\n\n    :return: res\n    :rtype: ```int```\n    """\n    return a\n'),
    ("fn_google", 'def f(a, b):\n    """\n    Summary.\n\n    Args:\n      a (int): the a\n      b (str): the b\n\n    Returns:\n      int: res\n    """\n    return a\n'),
    ("fn_numpy", 'def f(a, b):\n    """\n    Summary.\n\n    Parameters\n    ----------\n    a : int\n        the a\n    b : str\n        the b\n\n    Returns\n    -------\n    int\n        res\n    """\n    return a\n'),
    ("fn_annot", 'def f(a: int, b: str) -> int:\n    """Summary."""\n    return a\n'),
    ("fn_nodoc", "def f(a, b):\n    return a\n"),
    ("cls", 'class C(object):\n    """\n    Summary.\n\n    :cvar x: the x\n    """\n    x: int = 5\n\n    def m(self, a):\n        """\n        Do m.\n\n        :param a: the a\n        :type a: ```int```\n        """\n        return a\n'),
    ("blank_first", 'def f(a):\n    """\n\n    Summary.\n\n    :param a: the a\n    """\n    return a\n'),
    ("ws_first", 'def f(a):\n    """   \n    Summary.\n\n    :param a: the a\n    """\n    return a\n'),
    ("empty_doc", 'def f(a):\n    """"""\n    return a\n'),
    ("only_ws_doc", 'def f(a):\n    """   """\n    return a\n'),
    ("nested", 'def f(a):\n    """Outer.\n\n    :param a: the a\n    """\n    def g(b):\n        """Inner.\n\n        :param b: the b\n        """\n        return b\n    return g(a)\n'),
    ("async", 'async def f(a):\n    """Summary.\n\n    :param a: the a\n    """\n    return a\n'),
    # more defaults than parameters the parser keeps: positional-only parameters with defaults; a first parameter *named* like a receiver that has a default
    ("posonly_defaults", 'def clamp(value=0, low=0, /, high=1):\n    """Summary.\n\n    :param high: the high\n    """\n    return value\n'),
    ("receiver_named_default", 'def classify(cls=0, score=0.5):\n    """Summary.\n\n    :param score: the score\n    """\n    return cls\n'),
    ("receiver_named_default_nodoc", 'def classify(self=None, score=0.5, *, flag=False):\n    return score\n'),
]


# configuration read from the environment at import time (child interpreters): very narrow wrap widths and a tab character as the tab
ENVS = [{"DOCTRANS_LINE_LENGTH": "20"}, {"DOCTRANS_LINE_LENGTH": "1"}, {"DOCTRANS_TAB": "\t", "DOCTRANS_LINE_LENGTH": "60"}]


def _env_cases():
    """the emitter family (whitespace alphabet), the prose family (first token) and the doctrans programs, run again under each environment"""
    out = [dict(kind="emit", header=h, pdoc=d) for (hk, h), (dk, d) in itertools.product(WS, WS)]
    out += [dict(kind="prose_block", prefix=[i], maxlen=1) for i in range(len(PROSE))]
    out += [dict(kind="doctrans", program=name, style=style, type_annotations=ta) for name, _ in PROGRAMS for style in ("rest", "google", "numpydoc") for ta in (True, False)]
    return out


def cases(tier, seed):
    n_env = len(_env_cases())
    for ei in range(len(ENVS)):
        for lo in range(0, n_env, 12):
            yield dict(kind="env_block", env=ei, lo=lo, hi=lo + 12)
    b = _bounds(tier)
    n = b["n_tokens"]
    # (a) docstring token strings, sharded by first token
    yield dict(kind="doc_block", prefix=[], maxlen=1)
    for i in range(len(SIGMA_DOC)):
        for j in range(len(SIGMA_DOC)):
            yield dict(kind="doc_block", prefix=[i, j], maxlen=n)
    # (a') argument sections built from whole-line units, sharded by style and first unit
    for style in UNITS:
        for i in range(len(UNITS[style][1])):
            yield dict(kind="unit_block", style=style, first=i, maxlen=b["n_units"])
    # (b) emitter on whitespace-alphabet interfaces
    kinds = A.sigma_int()
    for (hk, h), (dk, d) in itertools.product(WS, WS):
        yield dict(kind="emit", header=h, pdoc=d)
    # (d) prose token strings as parameter descriptions through every emitter and the source-level parsers
    for i in range(len(PROSE)):
        yield dict(kind="prose_block", prefix=[i], maxlen=b["n_prose_tokens"])
    # (c) doctrans repeated
    for name, src in PROGRAMS:
        for style in ("rest", "google", "numpydoc"):
            for ta in (True, False):
                yield dict(kind="doctrans", program=name, style=style, type_annotations=ta)
    # the C07 program alphabet (sub-alphabet of definitions, singly and in pairs) - each doctrans round under fuel
    from mc import programs as P

    for defs in P.SUB:
        for style in ("rest", "google", "numpydoc"):
            for ta in (True, False):
                yield dict(kind="doctrans", key=dict(defs=[defs]), style=style, type_annotations=ta)
    if tier == "thorough":
        for key, src in P.pair_programs(same_name=(False,)):
            for style in ("rest", "numpydoc"):
                yield dict(kind="doctrans", key=key, style=style, type_annotations=True)


def budget(n):
    return C0 + C1 * n


def _doc_strings(case):
    if "string" in case:
        yield case["string"]
        return
    if case["kind"] == "unit_block":
        head, units = UNITS[case["style"]]
        for n in range(0, case["maxlen"]):
            for t in itertools.product(units, repeat=n):
                yield head + units[case["first"]] + "".join(t)
        return
    pre = "".join(SIGMA_DOC[i] for i in case["prefix"])
    if not case["prefix"]:
        yield ""
        for t in SIGMA_DOC:
            yield t
        return
    for n in range(0, case["maxlen"] - len(case["prefix"]) + 1):
        for t in itertools.product(SIGMA_DOC, repeat=n):
            yield pre + "".join(t)


def _check_call(kind, size, f, *a, **kw):
    """-> (violation or None, steps, outcome)"""
    outcome, val, steps = fuel.run_with_fuel(budget(size), f, *a, **kw)
    if outcome == "exhausted":
        return dict(sig=dict(check="fuel", call=kind), expected="returns or raises within %d line events (input size %d)" % (budget(size), size), observed="budget exhausted"), steps, outcome
    return None, steps, outcome


def run(case):
    from mc import core

    if case.get("kind") == "env_block":
        return core.run_env_block("mc.checks.c11", _env_cases()[case["lo"]: case["hi"]], ENVS[case["env"]], case["env"])
    if "env" in case:
        return core.run_env_case("mc.checks.c11", case, ENVS)
    import cdd.docstring.emit
    import cdd.shared.docstring_parsers
    import cdd.shared.docstring_utils

    viol, n, transitions, outcomes = [], 0, 0, set()
    max_ratio, max_steps = 0.0, 0

    n_exh = [0]  # a case that has already exhausted its budget a few times fails the check: the rest of it is skipped (each exhaustion burns a whole budget)

    def note(v, steps, size, outcome, subcase):
        nonlocal max_ratio, max_steps, transitions
        transitions += 1
        outcomes.add(outcome)
        if outcome == "exhausted":
            n_exh[0] += 1
        max_steps = max(max_steps, steps)
        max_ratio = max(max_ratio, steps / float(size + 1))
        if v is not None and not any(x["sig"] == v["sig"] for x in viol):
            v["case"] = subcase
            viol.append(v)

    if case["kind"] in ("doc_block", "doc_string", "unit_block"):
        for s in _doc_strings(case):
            if n_exh[0] >= 4:
                break
            n += 1
            sub = dict(kind="doc_string", string=s)
            for edd in (True, False):
                v, steps, o = _check_call("parse_docstring", len(s), cdd.shared.docstring_parsers.parse_docstring, s, emit_default_doc=edd)
                note(v, steps, len(s), o, sub)
            # the keyword arguments the other calls leave at their defaults: no word wrap (descriptions keep their line breaks), inferred types, original whitespace
            v, steps, o = _check_call("parse_docstring_kwargs", len(s), cdd.shared.docstring_parsers.parse_docstring, s, word_wrap=False, infer_type=True, parse_original_whitespace=True)
            note(v, steps, len(s), o, sub)
            v, steps, o = _check_call("parse_docstring_no_wrap", len(s), cdd.shared.docstring_parsers.parse_docstring, s, word_wrap=False)
            note(v, steps, len(s), o, sub)
            v, steps, o = _check_call("split_header_args_footer", len(s), cdd.shared.docstring_utils.parse_docstring_into_header_args_footer, s, s)
            note(v, steps, len(s), o, sub)
    elif case["kind"] == "emit":
        for (kind, p), style, indent in itertools.product(A.sigma_int()[:6], ("rest", "google", "numpydoc"), (0, 1, 2)):
            if n_exh[0] >= 4:
                break
            n += 1
            p = dict(p)
            p["doc"] = case["pdoc"]
            ir = A.mk_ir([("alpha", p)], A.RETURNS[1][1], doc=case["header"])
            size = len(case["pdoc"]) + len(case["header"]) + 40
            v, steps, o = _check_call("docstring_emit", size, cdd.docstring.emit.docstring, ir, docstring_format=style, indent_level=indent)
            note(v, steps, size, o, case)
            # the emitter also re-flows an original docstring when the IR carries one
            ir2 = A.mk_ir([("alpha", dict(p))], A.RETURNS[1][1], doc=case["header"])
            ir2["_internal"] = {"original_doc_str": case["header"] + "\n" + case["pdoc"]}
            v, steps, o = _check_call("docstring_emit_original", size, cdd.docstring.emit.docstring, ir2, docstring_format=style, indent_level=indent, emit_original_whitespace=True)
            note(v, steps, size, o, case)
    elif case["kind"] in ("prose_block", "prose_string"):
        from mc import formats as F

        if "string" in case:
            strings = [case["string"]]
        else:
            pre = "".join(PROSE[i] for i in case["prefix"])
            strings = [pre + "".join(t) for k in range(0, case["maxlen"] - len(case["prefix"]) + 1) for t in itertools.product(PROSE, repeat=k)]
        for s in strings:
            if n_exh[0] >= 4:
                break
            n += 1
            sub = dict(kind="prose_string", string=s)
            size = len(s) + 60
            for pk, pdict in (("int_default", dict(doc=s, typ="int", default=5)), ("str_plain", dict(doc=s, typ="str"))):
                ir = A.mk_ir([("alpha", pdict), ("beta", dict(doc="the other", typ="str", default="b"))], A.RETURNS[1][1])
                for fmt in ("docstring", "class", "function", "argparse"):
                    for style in (("rest", "google", "numpydoc") if fmt == "docstring" else ("rest",)):
                        for edd in (False, True):
                            def emit_and_reparse(fmt=fmt, style=style, edd=edd, ir=ir):
                                node = F.emit_ast(fmt, ir, style=style, emit_default_doc=edd)
                                text = node if isinstance(node, str) else F.render(node)
                                return F.parse_text(fmt, text)

                            v, steps, o = _check_call("emit_reparse_%s" % fmt, size, emit_and_reparse)
                            note(v, steps, size, o, sub)
    elif case["kind"] == "doctrans":
        import cdd.compound.doctrans

        if "key" in case:
            from mc import programs as P

            src = P.render_program(case["key"])
        else:
            src = dict(PROGRAMS)[case["program"]]
        d = tempfile.mkdtemp(prefix="c11_")
        path = os.path.join(d, "m.py")
        try:
            with open(path, "wt") as f:
                f.write(src)
            for rnd in range(1, 4):
                n += 1
                with open(path, "rt") as f:
                    size = len(f.read())
                v, steps, o = _check_call("doctrans_round_%d" % rnd, size, cdd.compound.doctrans.doctrans, path, case["style"], case["type_annotations"], False)
                note(v, steps, size, o, case)
                if o == "exhausted":
                    break
        finally:
            import shutil

            shutil.rmtree(d, ignore_errors=True)
    return dict(
        outcome="+".join(sorted(outcomes)),
        transitions=transitions,
        evaluations=max(n, 1),
        violations=viol,
        extra=dict(n_case_states=max(n, 1) - 1, max_steps=max_steps, max_steps_per_char_x100=int(max_ratio * 100)),
    )


def describe(tier):
    b = _bounds(tier)
    return dict(
        rule="(a) every docstring of <= {n_tokens} tokens over the {k}-token docstring alphabet through parse_docstring (emit_default_doc "
        "True/False) and parse_docstring_into_header_args_footer; (a') every Google and NumPy argument section of <= {n_units} whole-line units over a {u}-unit alphabet (entries with and without "
        "description or type, body-less header-like lines, blank and continuation lines, a following section) through the same calls; (b) {w}x{w} (header, description) pairs from the whitespace alphabet x 6 "
        "parameter kinds x 3 styles x indent 0..2 through docstring.emit (with and without an original docstring); (d) every parameter description of <= {n_prose_tokens} "
        "tokens over the {pr}-token prose alphabet (default announcements in recognised and unrecognised forms, type trigger words, quotes, brackets) x 2 parameter kinds "
        "through emit+re-parse of docstring (3 styles), class, function and argparse with emit_default_doc on/off; (c) {p} generated modules "
        "x 3 styles x annotations on/off through doctrans applied 1, 2, 3 times; each call under the step budget {c0}+{c1}*len(input) line "
        "events; a case is one input string/interface/module".format(k=len(SIGMA_DOC), w=len(WS), p=len(PROGRAMS), c0=C0, c1=C1, pr=len(PROSE), u=len(UNITS["google"][1]), **b),
        bounds=dict(units=UNITS, sigma_doc=SIGMA_DOC, prose_alphabet=PROSE, whitespace_alphabet=[w[1] for w in WS], programs=[p[0] for p in PROGRAMS], c0=C0, c1=C1, **b),
        exhaustive=True,
        assumptions=["termination is measured in line events of the cdd package (deterministic); loops inside C code (re, str methods) are not counted",
                     "'proportional' is decided against the fixed envelope C0 + C1*n; measured maxima are reported as max_steps / max_steps_per_char_x100"],
    )


def standalone(case):
    if case.get("kind") != "doc_string":
        return None
    return ("import cdd.shared.docstring_parsers as P, cdd.shared.docstring_utils as U\ns = {s!r}\n"
            "# must return or raise promptly (the check counts line events; run this under `timeout 10`)\n"
            "for f, a in ((P.parse_docstring, (s,)), (U.parse_docstring_into_header_args_footer, (s, s))):\n"
            "    try:\n        print(f.__name__, f(*a))\n    except Exception as e:\n        print(f.__name__, 'raises', repr(e))\n").format(s=case["string"])
