"""
C12 - sync makes every target equivalent to the truth, then is a no-op.

Explicit-state exploration of file-system states: an initial state is a triple (class file, method file, argparse file) where the
truth holds interface T and each other target is {equivalent, different, missing, empty}; the transition is one `sync --truth X` run
by the real command; the search follows run 1, 2, 3 and closes when a run changes nothing.  Invariants after run 1: every file is
valid Python, every named target parses to the truth's interface, the truth is unchanged, everything outside the targets is unchanged
(ASTs); after run 2 (and 3): byte-identical to the previous state.
"""
import ast
import io
import itertools
import os
import shutil
import tempfile
from collections import OrderedDict
from contextlib import redirect_stderr, redirect_stdout
from copy import deepcopy

from mc import alphabets as A
from mc import formats as F
from mc import oracle as O

PROPERTY = "C12"

KINDS = ["class", "function", "argparse_function"]
PARAM_KINDS = OrderedDict(
    (
        ("int5", OrderedDict((("doc", "the count"), ("typ", "int"), ("default", 5)))),
        ("strx", OrderedDict((("doc", "the name"), ("typ", "str"), ("default", "x")))),
        ("boolf", OrderedDict((("doc", "the flag"), ("typ", "bool"), ("default", False)))),
        ("float_nodefault", OrderedDict((("doc", "the ratio"), ("typ", "float")))),
        ("optstr", OrderedDict((("doc", "the label"), ("typ", "Optional[str]"), ("default", A.NoneStr)))),
        # parameters without a description of their own (the docstring is then the summary alone)
        ("int5_nodoc", OrderedDict((("typ", "int"), ("default", 5)))),
        ("strx_nodoc", OrderedDict((("typ", "str"), ("default", "x")))),
        ("lit_nodoc", OrderedDict((("typ", "Literal['fast', 'slow', 'dry']"), ("default", "fast")))),
        ("lit", OrderedDict((("doc", "the mode"), ("typ", "Literal['fast', 'slow', 'dry']"), ("default", "fast")))),
        # a description longer than any wrap column (the command line's word-wrap switch decides whether created targets fold it)
        ("longdoc", OrderedDict((("doc", "the directory that every intermediate artefact of the run is written to, created on demand and emptied again after each epoch has completed"), ("typ", "str"), ("default", "out")))),
    )
)
TRUTHS = [["int5"], ["strx"], ["int5", "strx"], ["strx", "boolf"], ["boolf", "int5"], ["float_nodefault", "int5"], ["optstr"], ["int5", "optstr"], ["int5", "strx", "boolf"], ["strx", "int5", "optstr"],
          ["int5_nodoc", "strx_nodoc"], ["strx_nodoc", "lit_nodoc", "int5_nodoc"], ["strx", "lit"], ["lit_nodoc"],
          # truths that document a return value ("+ret" is not a parameter kind: it adds the return entry)
          ["int5", "+ret"], ["strx", "boolf", "+ret"],
          ["longdoc"], ["int5", "longdoc"]]
DIFFERENT = ["zeta_int9"]
# near-miss targets: the truth with one default changed / one trailing parameter more / its last parameter missing / its Literal one member short
STATES = ["equivalent", "different", "diff_default", "diff_extra", "diff_tail_missing", "diff_literal_short", "missing", "empty"]
# the target holds the truth's interface but its docstring is in another style (as `doctrans` leaves it): class and method targets
STYLE_STATES = ["equivalent_google", "equivalent_numpydoc"]
# a class target laid out attribute(s), method, attribute: the truth's attributes, then a method, then one attribute more (class targets only)
LAYOUT_STATES = ["diff_method_between"]
# legal but unusual statement orders of an argparse-function *truth*: what it says does not depend on where its description is assigned
TRUTH_LAYOUTS = ["description_last", "description_after_first", "extra_statement_first", "description_absent"]


def relayout_argparse(src, how):
    tree = ast.parse(src)
    fn, _ = find_target(tree, "argparse_function")
    i = next(k for k, st in enumerate(fn.body) if isinstance(st, ast.Assign) and isinstance(st.targets[0], ast.Attribute) and st.targets[0].attr == "description")
    stmt = fn.body.pop(i)
    if how == "description_last":
        fn.body.insert(len(fn.body) - 1, stmt)  # before the final return
    elif how == "description_after_first":
        fn.body.insert(i + 1, stmt)
    elif how == "extra_statement_first":
        fn.body.insert(i, stmt)
        fn.body.insert(i, ast.parse("argument_parser.prog = 'tool'").body[0])
    elif how != "description_absent":
        raise ValueError(how)
    return ast.unparse(ast.fix_missing_locations(tree)) + "\n"

PRE = 'import os\n\n\ndef unrelated_before(q=1):\n    """Unrelated."""\n    return q\n\n\n'
POST = '\n\nclass UnrelatedAfter(object):\n    """Unrelated."""\n\n    k: int = 3\n'


def variant(keys, how):
    """a target interface that differs from the truth only slightly: one default changed / one parameter more"""
    ir = interface(keys)
    if how == "diff_default":
        first = next(iter(ir["params"].values()))
        first["default"] = {int: 77, str: "other", bool: True, float: 7.5}.get(type(first.get("default")), 77) if first.get("default") != A.NoneStr else "set"
        if first.get("typ") == "Optional[str]":
            first["default"] = "set"
    elif how == "diff_tail_missing":
        if len(ir["params"]) < 2:
            return None
        ir["params"].popitem()
    elif how == "diff_literal_short":
        lit = [p for p in ir["params"].values() if p["typ"].startswith("Literal[")]
        if not lit:
            return None
        lit[-1]["typ"] = "Literal['fast', 'slow']"
    else:
        nodoc = all("doc" not in p for p in ir["params"].values())
        ir["params"]["omega"] = OrderedDict((("typ", "int"), ("default", 3))) if nodoc else OrderedDict((("doc", "the omega"), ("typ", "int"), ("default", 3)))
    return ir


def interface(keys):
    names = ["alpha", "beta", "gamma"]
    if keys == "different":
        return A.mk_ir([("zeta", OrderedDict((("doc", "the zeta"), ("typ", "int"), ("default", 9))))], None, "Other summary.", name=None)
    ret = OrderedDict((("doc", "the result"), ("typ", "int"))) if "+ret" in keys else None
    return A.mk_ir([(n, PARAM_KINDS[k]) for n, k in zip(names, [k for k in keys if k != "+ret"])], ret, "Summary line.", name=None)


def render_target(kind, ir, style="rest"):
    import cdd.argparse_function.emit
    import cdd.class_.emit
    import cdd.function.emit

    ir = deepcopy(ir)
    if kind == "class":
        node = cdd.class_.emit.class_(ir, class_name="ConfigClass", emit_default_doc=False, docstring_format=style)
        return PRE + F.render(node) + "\n" + POST
    if kind == "function":
        node = cdd.function.emit.function(ir, function_name="method", function_type="self", emit_default_doc=False, indent_level=2, emit_as_kwonlyargs=False, docstring_format=style)
        body = "\n".join("    " + l if l.strip() else l for l in F.render(node).split("\n"))
        return PRE + 'class C(object):\n    """C"""\n\n' + body + "\n" + POST
    # help strings are literals: an initial target is written unfolded (a folded one would hold another description than the truth)
    node = cdd.argparse_function.emit.argparse_function(ir, emit_default_doc=False, function_name="set_cli_args", function_type="static", word_wrap=False)
    return PRE + F.render(node) + "\n" + POST


TARGET_NAMES = {"class": "ConfigClass", "function": "C.method", "argparse_function": "set_cli_args"}
FILES = {"class": "cls.py", "function": "meth.py", "argparse_function": "cli.py"}


def cases(tier, seed):
    truths = TRUTHS
    if tier == "thorough":
        # every truth of one or two parameters over all nine kinds, and the triples over a three-kind sub-alphabet
        ks = list(PARAM_KINDS)
        truths = [[a] for a in ks] + [[a, b] for a in ks for b in ks] + [list(t) for t in itertools.product(("int5", "lit_nodoc", "optstr"), repeat=3)]
        # a function signature cannot hold a default-less parameter after a defaulted one: such interfaces are outside the common domain of the three kinds
        truths = [t for i, t in enumerate(truths) if t not in truths[:i] and A.defaults_form_suffix(interface(t))]
    for t in truths:
        for truth in KINDS:
            others = [k for k in KINDS if k != truth]
            for sa, sb in itertools.product(STATES, repeat=2):
                if any(st.startswith("diff_") and variant(t, st) is None for st in (sa, sb)):
                    continue  # that near miss does not exist for this interface
                yield dict(truth=truth, iface=t, states={others[0]: sa, others[1]: sb})
            for i_cls, other_state in itertools.product((0, 1), ("equivalent", "missing", "different")):
                if others[i_cls] == "class":
                    st = {others[i_cls]: "diff_method_between", others[1 - i_cls]: other_state}
                    yield dict(truth=truth, iface=t, states=st)
            for sa, sb in itertools.product(STYLE_STATES + ["equivalent"], repeat=2):
                if (sa, sb) != ("equivalent", "equivalent") and not (sa in STYLE_STATES and others[0] == "argparse_function") and not (sb in STYLE_STATES and others[1] == "argparse_function"):
                    yield dict(truth=truth, iface=t, states={others[0]: sa, others[1]: sb})
            for sa, sb in itertools.product(STATES, repeat=2):
                if t in (TRUTHS[2], TRUTHS[9], TRUTHS[12]) and sa in ("equivalent", "different", "missing") and sb in ("equivalent", "diff_default", "empty"):
                    yield dict(truth=truth, iface=t, states={others[0]: sa, others[1]: sb}, no_word_wrap=True)
            if truth == "argparse_function" and (tier == "thorough" or t in (TRUTHS[0], TRUTHS[2], TRUTHS[9], TRUTHS[12], TRUTHS[14])):
                for lay in TRUTH_LAYOUTS:
                    for sa, sb in itertools.product(("equivalent", "different", "diff_default", "missing", "empty"), repeat=2):
                        yield dict(truth=truth, iface=t, states={others[0]: sa, others[1]: sb}, truth_layout=lay)


def find_target(tree, kind):
    if kind == "class":
        return next((n for n in tree.body if isinstance(n, ast.ClassDef) and n.name == "ConfigClass"), None), tree.body
    if kind == "function":
        c = next((n for n in tree.body if isinstance(n, ast.ClassDef) and n.name == "C"), None)
        if c is None:
            return next((n for n in tree.body if isinstance(n, ast.FunctionDef) and n.name == "method"), None), tree.body
        return next((n for n in c.body if isinstance(n, ast.FunctionDef) and n.name == "method"), None), c.body
    return next((n for n in tree.body if isinstance(n, ast.FunctionDef) and n.name == "set_cli_args"), None), tree.body


def parse_target(kind, node):
    import cdd.argparse_function.parse
    import cdd.class_.parse
    import cdd.function.parse

    if kind == "class":
        return cdd.class_.parse.class_(node)
    if kind == "function":
        return cdd.function.parse.function(node)
    return cdd.argparse_function.parse.argparse_ast(node)


def rest_dump(src, kind):
    """AST dump of a file with the target node removed"""
    tree = ast.parse(src)
    node, container = find_target(tree, kind)
    if node is not None:
        container.remove(node)
    return ast.dump(tree)


RULES = {"class": {}, "function": dict(absent_default_is_none=True), "argparse_function": dict(ret_only_if_default=True)}


def sync(d, truth, no_word_wrap=False):
    import cdd.__main__

    argv = ["sync", "--truth", truth] + (["--no-word-wrap"] if no_word_wrap else [])
    for k in KINDS:
        flag = {"class": "--class", "function": "--function", "argparse_function": "--argparse-function"}[k]
        argv += [flag, os.path.join(d, FILES[k]), flag + "-name", TARGET_NAMES[k]]
    out = io.StringIO()
    with redirect_stdout(out), redirect_stderr(io.StringIO()):
        cdd.__main__.main(argv)
    return out.getvalue()


def snapshot(d):
    res = {}
    for k in KINDS:
        p = os.path.join(d, FILES[k])
        if os.path.isfile(p):
            with open(p, "rt") as f:
                res[k] = f.read()
        else:
            res[k] = None
    extra = sorted(set(os.listdir(d)) - set(FILES.values()))
    res["_extra"] = extra
    return res


def run(case):
    truth, states = case["truth"], case["states"]
    T = interface(case["iface"])
    D = interface("different")
    viol = []
    base_ctx = dict(check="sync", truth=truth)
    if case.get("no_word_wrap"):
        base_ctx["no_word_wrap"] = True
    if case.get("truth_layout"):
        base_ctx["truth_layout"] = case["truth_layout"]
    if len({("doc" in p) for p in T["params"].values()}) == 2:
        base_ctx["mixed_doc"] = True  # the truth documents some of its parameters and not others

    def v(clause, expected, observed, **extra):
        sig = dict(base_ctx)
        sig.update(clause=clause)
        sig.update(extra)
        viol.append(dict(sig=sig, expected=expected, observed=observed))

    d = tempfile.mkdtemp(prefix="c12_")
    transitions, outcome = 0, "ok"
    try:
        initial = {}
        for k in KINDS:
            st = "equivalent" if k == truth else states[k]
            p = os.path.join(d, FILES[k])
            if st == "missing":
                initial[k] = None
                continue
            if st == "diff_method_between":
                src = render_target(k, variant(case["iface"], "diff_extra"))
                lines = src.split("\n")
                at = next(i for i, l in enumerate(lines) if l.strip().startswith("omega"))
                lines[at:at] = ["    def helper(self):", '        """Help."""', "        return 1", ""]
                src = "\n".join(lines)
                initial[k] = src
                with open(p, "wt") as f:
                    f.write(src)
                continue
            src = "" if st == "empty" else render_target(k, T, st.split("_")[1]) if st in STYLE_STATES else render_target(k, T if st == "equivalent" else D if st == "different" else variant(case["iface"], st))
            initial[k] = src
            with open(p, "wt") as f:
                f.write(src)
        # what the truth says is read from its standard layout; a re-ordered truth must say the same
        gold = parse_target(truth, find_target(ast.parse(initial[truth]), truth)[0])
        if case.get("truth_layout"):
            initial[truth] = relayout_argparse(initial[truth], case["truth_layout"])
            with open(os.path.join(d, FILES[truth]), "wt") as f:
                f.write(initial[truth])
            if case["truth_layout"] == "description_absent":
                gold["doc"] = ""
        prev = snapshot(d)
        for rnd in (1, 2, 3):
            transitions += 1
            try:
                sync(d, truth, case.get("no_word_wrap", False))
            except BaseException as e:  # noqa
                if isinstance(e, KeyboardInterrupt):
                    raise
                snap = snapshot(d)
                v("sync_raises", "sync completes", "%s: %s" % (type(e).__name__, str(e)[:150]), exc=type(e).__name__, round=rnd,
                  states=",".join("%s=%s" % (k, states[k]) for k in sorted(states)), files_changed=",".join(k for k in KINDS if snap[k] != prev[k]) or "none")
                outcome = "raises"
                break
            snap = snapshot(d)
            if rnd == 1:
                if snap["_extra"]:
                    v("stray_files", "only the three listed files", snap["_extra"])
                for k in KINDS:
                    st = "truth" if k == truth else states[k]
                    src = snap[k]
                    if src is None:
                        v("target_file_missing", "file created", "still missing", target=k, initial=st)
                        continue
                    try:
                        tree = ast.parse(src)
                    except SyntaxError as e:
                        v("target_not_python", "valid Python", "SyntaxError: %s" % e, target=k, initial=st)
                        continue
                    node, _ = find_target(tree, k)
                    if node is None:
                        v("target_not_found", TARGET_NAMES[k], "not defined after sync", target=k, initial=st)
                        continue
                    try:
                        got = parse_target(k, node)
                    except Exception as e:
                        v("target_unparseable", "parses with the matching parser", "%s: %s" % (type(e).__name__, str(e)[:100]), target=k, initial=st, exc=type(e).__name__)
                        continue
                    ctx = dict(base_ctx)
                    ctx.update(clause="target_equivalent_to_truth", target=k, initial=st)
                    rules = dict(RULES[k])
                    if RULES[truth].get("absent_default_is_none"):
                        rules["absent_default_is_none"] = True
                    rules["ignore_returns"] = True
                    for x in O.compare(gold, got, rules, ctx):
                        x["detail"] = src
                        viol.append(x)
                    # descriptions are compared up to white space by the shared oracle (docstring text may be re-flowed); a line break *inside the parsed description* that the
                    # truth's description does not have is a different description all the same (an argparse help string is a literal, nothing re-flows it)
                    for name, p in (got.get("params") or {}).items():
                        g = (gold.get("params") or {}).get(name) or {}
                        if isinstance(p.get("doc"), str) and isinstance(g.get("doc"), str) and "\n" in p["doc"].strip() and "\n" not in g["doc"].strip():
                            v("description_line_break", repr(g["doc"]), repr(p["doc"]), target=k, initial=st)
                            break
                    if k != truth and initial[k]:
                        # code outside the named target is unchanged
                        if rest_dump(initial[k], k) != rest_dump(src, k):
                            v("outside_target_changed", "AST outside the target unchanged", "changed", target=k, initial=st)
                    # the truth may be re-rendered (sync conforms it like every other listed file: a hand-wrapped description is unfolded); the property asks for its
                    # *interface* to be unchanged - compared above like every other target - and for the code around it to stay
                    if k == truth and initial[k] is not None and rest_dump(initial[k], k) != rest_dump(src, k):
                        v("truth_changed", "AST of the truth file outside the truth itself unchanged", "changed", target=k)
            else:
                changed = [k for k in KINDS if snap[k] != prev[k]]
                if changed:
                    v("not_idempotent", "run %d leaves every file byte-identical" % rnd, "changed: %s" % changed, round=rnd, files=",".join(changed),
                      states=",".join("%s=%s" % (k, states[k]) for k in sorted(states)))
            if rnd > 1 and snap == prev:
                outcome = "closed@%d" % rnd
                break
            prev = snap
        else:
            outcome = "open@3"
    finally:
        shutil.rmtree(d, ignore_errors=True)
    return dict(outcome=outcome, transitions=transitions, violations=viol)


def describe(tier):
    return dict(
        rule="initial states: truth kind in {{class, function, argparse_function}} x {n} truth interfaces (1-3 parameters over 9 kinds, with and without per-parameter descriptions) x each of the two "
        "other targets in {{equivalent, different, near misses (one default changed, one trailing parameter more, last parameter missing, Literal one member short), missing, empty}}; every file holds an unrelated definition before and after its target; transition = "
        "one real `sync` run; runs 1..3 (closes when a run changes nothing); argparse truths also in {tl} unusual statement orders (the interface read from the standard order is the reference); a case = one initial state".format(n=len(TRUTHS), tl=len(TRUTH_LAYOUTS)),
        bounds=dict(truths=TRUTHS if tier == "quick" else "all 1- and 2-tuples over %d parameter kinds + 27 triples" % len(PARAM_KINDS), states=STATES, kinds=KINDS, rounds=3),
        exhaustive=True,
        assumptions=["all three kinds are always listed (the command requires it)", "'code outside the targets unchanged' is compared on ASTs: the command re-renders whole files",
                     "target equivalence uses the C02 normalisations of the target's and the truth's format"],
    )
