"""
C13 - sync_properties updates exactly the selected property.

Exhaustive over output modules (one class with two annotated attributes + one function or method with k = 1..4 parameters, every
default-suffix length, first parameter plain/self/cls, optional keyword-only tail) x every output location x 5 input properties
(class attributes with/without value, function parameters; names equal to / different from output names) x wrap template x
--input-eval.  Oracle: a reference transformer replaces exactly the selected node in the *before* AST; the *after* AST must equal it
modulo the selected node's own default/value; the input file is unchanged.
"""
import ast
from collections import OrderedDict
import itertools
import os
import shutil
import tempfile
from copy import deepcopy

PROPERTY = "C13"

INPUT_SRC = '''class In(object):
    """In."""

    a: float = 9.5
    b: complex
    z: bytes = b"zz"


def fin(a: frozenset, z: list = None):
    """fin."""
    return a


t = ("p", "q")
u = (1, True, "1", 0, False)
w = ["a", "b", "a"]
'''
# the same properties in a module where every selected name is *shadowed* by an earlier node of another kind: a module-level annotated
# variable named like the class attribute, a class attribute named like the parameter of a method declared below it
INPUT_SRC_SHADOW = '''a: str = "module level"
z: int = 0


class In(object):
    """In."""

    a: float = 9.5
    b: complex
    z: bytes = b"zz"
    p: float = 30.5
    q: bytearray

    def meth(self, q: memoryview, p: range = None):
        """meth."""
        return p


def fin(a: frozenset, z: list = None):
    """fin."""
    return a


t = ("p", "q")
u = (1, True, "1", 0, False)
w = ["a", "b", "a"]
'''
INPUTS_SHADOW = [
    ("In.meth.p", "method_param_default", "p", "range"),
    ("In.meth.q", "method_param", "q", "memoryview"),
]
INPUTS = [
    ("In.a", "attr_value", "a", "float"),
    ("In.b", "attr_novalue", "b", "complex"),
    ("In.z", "attr_value", "z", "bytes"),
    ("fin.a", "func_param", "a", "frozenset"),
    ("fin.z", "func_param_default", "z", "list"),
]
PNAMES = ["a", "b", "c", "d"]
PTYPES = {"a": "int", "b": "str", "c": "str", "d": "bool", "kw": "int"}
PDEFAULTS = {"a": "1", "b": "'b'", "c": "'c'", "d": "False", "kw": "0"}
# the second template names the placeholder twice (str.format fills every occurrence)
WRAPS = [None, "Optional[{output_param}]", "Union[{output_param}, List[{output_param}]]"]
# --input-eval: module-level collections and the Literal their evaluation must give (members that compare equal across types, a repeated member)
EVAL_INPUTS = OrderedDict((("t", "Literal['p', 'q']"), ("u", "Literal[1, True, '1', 0, False]"), ("w", "Literal['a', 'b', 'a']")))


def output_module(k, n_defaults, lead, kwtail, decoy=False):
    names = PNAMES[:k]
    parts = []
    if lead != "plain":
        parts.append(lead)
    for i, n in enumerate(names):
        has_def = i >= k - n_defaults
        parts.append("%s: %s%s" % (n, PTYPES[n], " = " + PDEFAULTS[n] if has_def else ""))
    if kwtail:
        parts.append("*")
        parts.append("kw: int = 0")
    sig = ", ".join(parts)
    src = 'import os\n\n\n'
    if decoy:
        # definitions *before* the targets that carry the same property names (and, for some inputs, identical nodes) as the input module
        src += 'def before_decoy(a: frozenset, z: list = None, b: str = "q"):\n    return 0\n\n\nclass Decoy(object):\n    """Decoy."""\n\n    a: float = 9.5\n    b: complex\n    x: int = 1\n\n\n'
    src += 'class Out(object):\n    """Out."""\n\n    x: int = 1\n    y: str = "y"\n\n\n'
    if lead == "plain":
        src += 'def before():\n    return 0\n\n\ndef fout(%s):\n    """fout."""\n    return None\n' % sig
        fpath = ["fout"]
    else:
        deco = "    @classmethod\n" if lead == "cls" else ""
        first = '    def first(self, a: frozenset, b: str = "q"):\n        return a\n\n' if decoy else ""
        shadow = "    a: bytes = b'm'\n    kw: float = 0.5\n" if decoy else ""  # attributes named like parameters of the method below
        src += 'class M(object):\n    """M."""\n\n    w: int = 3\n' + shadow + '\n' + first + '%s    def meth(%s):\n        """meth."""\n        return None\n' % (deco, sig)
        fpath = ["M", "meth"]
    src += "\n\ndef after(a: int = 7, b=8):\n    return a\n"
    return src, fpath, names


def cases(tier, seed):
    ks = (1, 2, 3) if tier == "quick" else (1, 2, 3, 4)
    for k in ks:
        for n_defaults in range(0, k + 1):
            for lead in ("plain", "self", "cls"):
                for kwtail, decoy in ((False, False), (True, False), (False, True)):
                    src, fpath, names = output_module(k, n_defaults, lead, kwtail, decoy)
                    targets = [("Out.x", "class_attr"), ("Out.y", "class_attr")] + [(".".join(fpath + [n]), "param") for n in names]
                    if kwtail:
                        targets.append((".".join(fpath + ["kw"]), "kwonly"))
                    for (tpath, tkind) in targets:
                        for inp in INPUTS:
                            for wrap in WRAPS:
                                yield dict(out=dict(k=k, n_defaults=n_defaults, lead=lead, kwtail=kwtail, decoy=decoy), target=tpath, tkind=tkind, input=inp[0], wrap=wrap, eval=False)
                        if decoy or (k <= 2 and not kwtail):
                            # shadowed input module: the old inputs again (now preceded by same-named nodes) and the method parameters
                            for inp in INPUTS + INPUTS_SHADOW:
                                yield dict(out=dict(k=k, n_defaults=n_defaults, lead=lead, kwtail=kwtail, decoy=decoy), target=tpath, tkind=tkind, input=inp[0], wrap=None, eval=False, shadow=True)
                        for ev in EVAL_INPUTS:
                            yield dict(out=dict(k=k, n_defaults=n_defaults, lead=lead, kwtail=kwtail, decoy=decoy), target=tpath, tkind=tkind, input=ev, wrap=None, eval=True)


    # histories: earlier sync_properties calls in the same process that read the same, unmodified input file (into an output file of their own); the last call is judged
    calls = [dict(input=i[0], wrap=w, eval=False) for i in INPUTS for w in WRAPS] + [dict(input=e, wrap=None, eval=True) for e in EVAL_INPUTS]
    o = dict(k=2, n_defaults=1, lead="plain", kwtail=False, decoy=False)
    for tpath, tkind in (("Out.x", "class_attr"), ("fout.a", "param")):
        for depth in (1,) if tier == "quick" else (1, 2):
            for hist in itertools.product(calls, repeat=depth):
                if depth == 2 and not (hist[0]["wrap"] or hist[1]["wrap"]):
                    continue  # depth two: at least one of the earlier calls uses a template
                for last in calls:
                    yield dict(out=o, target=tpath, tkind=tkind, input=last["input"], wrap=last["wrap"], eval=last["eval"], history=list(hist))


    # one call with two (input, output) pairs: a class attribute and a function/method parameter, in both orders, every pair of inputs (the same input fanned out included)
    for lead in ("plain", "self"):
        o2 = dict(k=2, n_defaults=1, lead=lead, kwtail=False, decoy=False)
        fp = "fout" if lead == "plain" else "M.meth"
        for ta, tb in itertools.product(("Out.x", "Out.y"), (fp + ".a", fp + ".b")):
            for first, second in ((ta, tb), (tb, ta)):
                for ia, ib in itertools.product(INPUTS, repeat=2):
                    yield dict(out=o2, pairs=[dict(input=ia[0], target=first), dict(input=ib[0], target=second)], eval=False, wrap=None)


SENT = "__MASKED__"


def _find_function(tree, fpath):
    node = tree
    for name in fpath:
        node = next(n for n in node.body if getattr(n, "name", None) == name)
    return node


def apply_reference(tree, target, new_name, new_ann_src):
    """replace exactly the selected node (name + annotation); mask its own default/value; returns a locator for masking the other tree"""
    parts = target.split(".")
    if parts[0] == "Out":
        cls = next(n for n in tree.body if isinstance(n, ast.ClassDef) and n.name == "Out")
        idx = next(i for i, st in enumerate(cls.body) if isinstance(st, ast.AnnAssign) and st.target.id == parts[1])
        st = cls.body[idx]
        if new_name is not None:
            st.target.id = new_name
        st.annotation = ast.parse(new_ann_src, mode="eval").body
        return ("class", idx)
    fn = _find_function(tree, parts[:-1])
    for attr in ("args", "kwonlyargs"):
        lst = getattr(fn.args, attr)
        for i, a in enumerate(lst):
            if a.arg == parts[-1]:
                if new_name is not None:
                    a.arg = new_name
                a.annotation = ast.parse(new_ann_src, mode="eval").body
                return ("func", tuple(parts[:-1]), attr, i)
    raise KeyError(target)


def mask(tree, loc):
    if loc[0] == "class":
        cls = next(n for n in tree.body if isinstance(n, ast.ClassDef) and n.name == "Out")
        if loc[1] < len(cls.body) and isinstance(cls.body[loc[1]], ast.AnnAssign):
            cls.body[loc[1]].value = ast.Name(id=SENT, ctx=ast.Load())
        return
    fn = _find_function(tree, list(loc[1]))
    if loc[2] == "args":
        off = loc[3] - (len(fn.args.args) - len(fn.args.defaults))
        if 0 <= off < len(fn.args.defaults):
            fn.args.defaults[off] = ast.Name(id=SENT, ctx=ast.Load())
    else:
        if loc[3] < len(fn.args.kw_defaults) and fn.args.kw_defaults[loc[3]] is not None:
            fn.args.kw_defaults[loc[3]] = ast.Name(id=SENT, ctx=ast.Load())


def selected_default(tree, loc):
    """dump of the selected node's own default / value (None when it has none)"""
    try:
        if loc[0] == "class":
            cls = next(n for n in tree.body if isinstance(n, ast.ClassDef) and n.name == "Out")
            st = cls.body[loc[1]]
            return ast.dump(st.value) if isinstance(st, ast.AnnAssign) and st.value is not None else None
        fn = _find_function(tree, list(loc[1]))
        if loc[2] == "args":
            off = loc[3] - (len(fn.args.args) - len(fn.args.defaults))
            return ast.dump(fn.args.defaults[off]) if 0 <= off < len(fn.args.defaults) else None
        dv = fn.args.kw_defaults[loc[3]] if loc[3] < len(fn.args.kw_defaults) else None
        return ast.dump(dv) if dv is not None else None
    except Exception:
        return "<unreadable>"


def input_value(input_src, path):
    """dump of the value / default the input property carries itself (None when it has none)"""
    tree = ast.parse(input_src)
    parts = path.split(".")
    node = tree
    for name in parts[:-1]:
        node = next(n for n in node.body if getattr(n, "name", None) == name)
    if isinstance(node, ast.ClassDef) or node is tree:
        st = next((x for x in node.body if isinstance(x, ast.AnnAssign) and getattr(x.target, "id", None) == parts[-1]), None)
        return ast.dump(st.value) if st is not None and st.value is not None else None
    args = node.args.args
    i = next((k for k, a in enumerate(args) if a.arg == parts[-1]), None)
    if i is None:
        return None
    off = i - (len(args) - len(node.args.defaults))
    return ast.dump(node.args.defaults[off]) if 0 <= off < len(node.args.defaults) else None


def check_selected_default(v, before, after, loc, input_src, input_path, **extra):
    """the text is silent on whether the selected location keeps its own default or takes the input's; it is not silent on values from anywhere else"""
    own, got = selected_default(before, loc), selected_default(after, loc)
    # (`None` written out counts as "none": a parameter moved into a class body becomes `name: T = None`)
    allowed = {own, input_value(input_src, input_path) if input_path else None, None, ast.dump(ast.Constant(value=None))}
    if got not in allowed:
        v("selected_default_from_elsewhere", "own default %s, the input's, or none" % own, got, **extra)


def norm(tree):
    class N(ast.NodeTransformer):
        def visit_Constant(self, node):
            return ast.Constant(value=node.value)

    return ast.dump(N().visit(tree))


def run_multi(case):
    """one sync_properties call with several pairs: the reference replaces every selected node, in the order of the pairs"""
    import cdd.compound.sync_properties

    o = case["out"]
    src, fpath, names = output_module(o["k"], o["n_defaults"], o["lead"], o["kwtail"], o.get("decoy", False))
    pairs = case["pairs"]
    inps = [next(i for i in INPUTS if i[0] == p["input"]) for p in pairs]
    ctx = dict(check="sync_properties", pairs=len(pairs), lead=o["lead"], first_target="class_attr" if pairs[0]["target"].startswith("Out.") else "param",
               same_input=len({p["input"] for p in pairs}) == 1, in_kinds=",".join(i[1] for i in inps))
    viol = []

    def v(clause, expected, observed, **extra):
        sig = dict(ctx)
        sig.update(clause=clause)
        sig.update(extra)
        viol.append(dict(sig=sig, expected=expected, observed=observed))

    d = tempfile.mkdtemp(prefix="c13m_")
    try:
        ip, op = os.path.join(d, "inp.py"), os.path.join(d, "outp.py")
        with open(ip, "wt") as f:
            f.write(INPUT_SRC)
        with open(op, "wt") as f:
            f.write(src)
        try:
            cdd.compound.sync_properties.sync_properties(input_eval=False, input_filename=ip, input_params=[p["input"] for p in pairs], output_filename=op, output_params=[p["target"] for p in pairs], output_param_wrap=None)
        except Exception as e:
            v("raises", "the selected locations are replaced", "%s: %s" % (type(e).__name__, str(e)[:120]), exc=type(e).__name__)
            return dict(outcome="raises", transitions=1, violations=viol)
        with open(ip, "rt") as f:
            if f.read() != INPUT_SRC:
                v("input_modified", "input file unchanged", "changed")
        with open(op, "rt") as f:
            after_src = f.read()
        try:
            after = ast.parse(after_src)
        except SyntaxError as e:
            v("result_does_not_parse", "valid Python", "SyntaxError: %s" % e)
            return dict(outcome="syntax-error", transitions=1, violations=viol)
        before = ast.parse(src)
        locs = []
        for p, inp in zip(pairs, inps):
            # a later pair addresses its target by the name it has *now* (an earlier pair may have renamed a sibling, never this target: the two targets lie in different scopes)
            locs.append(apply_reference(before, p["target"], inp[2], inp[3]))
        for (pp, loc) in zip(pairs, locs):
            check_selected_default(v, before, after, loc, INPUT_SRC, pp["input"], which="first" if pp is pairs[0] else "later")
        try:
            for loc in locs:
                mask(before, loc)
                mask(after, loc)
        except Exception as e:
            v("structure_changed", "same definitions as before", "%s: %s" % (type(e).__name__, e))
            return dict(outcome="diff", transitions=1, violations=viol)
        a, b = norm(before), norm(after)
        if a != b:
            i = next((k for k, (x, y) in enumerate(zip(a, b)) if x != y), min(len(a), len(b)))
            import re

            m = re.findall(r"([a-z_]+)=", a[:i])
            v("ast_differs_from_reference", a[max(0, i - 90): i + 60], b[max(0, i - 90): i + 60], what=m[-1] if m else "?")
    finally:
        shutil.rmtree(d, ignore_errors=True)
    for x in viol:
        x["detail"] = dict(output_module=src, after=locals().get("after_src"))
    return dict(outcome="ok" if not viol else "diff", transitions=1, violations=viol)


def run(case):
    if case.get("pairs"):
        return run_multi(case)
    import cdd.compound.sync_properties

    o = case["out"]
    src, fpath, names = output_module(o["k"], o["n_defaults"], o["lead"], o["kwtail"], o.get("decoy", False))
    inp = next((i for i in INPUTS + INPUTS_SHADOW if i[0] == case["input"]), None)
    input_src = INPUT_SRC_SHADOW if case.get("shadow") else INPUT_SRC
    tname = case["target"].split(".")[-1]
    names_equal = bool(inp) and inp[2] in names + ["kw"]
    pos = "n/a"
    if case["tkind"] == "param":
        i = names.index(tname)
        pos = "only" if len(names) == 1 else "first" if i == 0 else "last" if i == len(names) - 1 else "middle"
    ctx = dict(
        check="sync_properties", in_kind="eval" if case["eval"] else inp[1], out_kind=case["tkind"], wrap=case["wrap"] is not None, lead=o["lead"], pos=pos,
        defaults="none" if o["n_defaults"] == 0 else "all" if o["n_defaults"] == o["k"] else "some", kwtail=o["kwtail"], decoy=o.get("decoy", False),
        input_name_in_output=names_equal, same_name=bool(inp) and inp[2] == tname, shadowed_input=bool(case.get("shadow")),
    )
    if case.get("history"):
        ctx["history"] = len(case["history"])
        ctx["history_same_input"] = any(h["input"] == case["input"] for h in case["history"])
        ctx["history_wrapped"] = any(h["wrap"] for h in case["history"])
    viol = []

    def v(clause, expected, observed, **extra):
        sig = dict(ctx)
        sig.update(clause=clause)
        sig.update(extra)
        viol.append(dict(sig=sig, expected=expected, observed=observed))

    d = tempfile.mkdtemp(prefix="c13_")
    try:
        ip, op = os.path.join(d, "inp.py"), os.path.join(d, "outp.py")
        with open(ip, "wt") as f:
            f.write(input_src)
        with open(op, "wt") as f:
            f.write(src)
        for hi, h in enumerate(case.get("history") or []):
            hp = os.path.join(d, "outp_h%d.py" % hi)
            with open(hp, "wt") as f:
                f.write(src)
            try:
                cdd.compound.sync_properties.sync_properties(input_eval=h["eval"], input_filename=ip, input_params=[h["input"]], output_filename=hp, output_params=[case["target"]], output_param_wrap=h["wrap"])
            except Exception:
                pass  # judged when it is the last call of its own case
        try:
            cdd.compound.sync_properties.sync_properties(
                input_eval=case["eval"], input_filename=ip, input_params=[case["input"]], output_filename=op, output_params=[case["target"]], output_param_wrap=case["wrap"]
            )
        except Exception as e:
            with open(op, "rt") as f:
                after_src = f.read()
            v("raises", "the selected location is replaced", "%s: %s" % (type(e).__name__, str(e)[:120]), exc=type(e).__name__, output_touched=after_src != src)
            return dict(outcome="raises", transitions=1, violations=viol)
        with open(ip, "rt") as f:
            if f.read() != input_src:
                v("input_modified", "input file unchanged", "changed")
        with open(op, "rt") as f:
            after_src = f.read()
        try:
            after = ast.parse(after_src)
        except SyntaxError as e:
            v("result_does_not_parse", "valid Python", "SyntaxError: %s" % e)
            return dict(outcome="syntax-error", transitions=1, violations=viol)
        before = ast.parse(src)
        if case["eval"]:
            new_name, ann = None, EVAL_INPUTS[case["input"]]
        else:
            new_name, ann = inp[2], inp[3]
            if case["wrap"]:
                ann = case["wrap"].format(output_param=ann)
        loc = apply_reference(before, case["target"], new_name, ann)
        check_selected_default(v, before, after, loc, input_src, None if case["eval"] else case["input"])
        mask(before, loc)
        try:
            mask(after, loc)
        except Exception as e:
            v("structure_changed", "same definitions as before", "%s: %s" % (type(e).__name__, e))
            return dict(outcome="diff", transitions=1, violations=viol)
        a, b = norm(before), norm(after)
        if a != b:
            i = next((k for k, (x, y) in enumerate(zip(a, b)) if x != y), min(len(a), len(b)))
            import re

            m = re.findall(r"([a-z_]+)=", a[:i])
            # is the difference inside the selected node or elsewhere?
            v("ast_differs_from_reference", a[max(0, i - 90): i + 60], b[max(0, i - 90): i + 60], what=m[-1] if m else "?")
    finally:
        shutil.rmtree(d, ignore_errors=True)
    for x in viol:
        x["detail"] = dict(output_module=src, after=locals().get("after_src"))
    return dict(outcome="ok" if not viol else "diff", transitions=1, violations=viol)


def describe(tier):
    return dict(
        rule="output modules: class Out (2 annotated attributes) + a function (or method with self/cls) with k = 1..{k} parameters, every default-suffix "
        "length 0..k, optional keyword-only tail, surrounded by unrelated definitions; every output location x 5 input properties (class attributes "
        "with/without value, function parameters with/without default; names equal to or different from output names) x wrap template absent/present, "
        "plus --input-eval of a tuple constant for every location; plus a second input module in which every selected name is shadowed by an earlier node of "
        "another kind (module-level annotated variable named like the class attribute; class attribute named like a parameter of a method below it) with "
        "method parameters as further inputs; one call with two pairs (a class attribute and a parameter, both orders, every pair of inputs); histories: every call preceded, in the same process and on the same unmodified input file, by every other call (thorough: by every pair of calls one of which uses a template); decoy output modules also carry class attributes named like the method's parameters; a case = one sync_properties invocation".format(k=3 if tier == "quick" else 4),
        bounds=dict(k=3 if tier == "quick" else 4, inputs=[i[0] for i in INPUTS], shadowed_inputs=[i[0] for i in INPUTS + INPUTS_SHADOW], wraps=WRAPS),
        exhaustive=True,
        assumptions=["reference transformer mc/checks/c13.py:apply_reference; the selected node's own default/value is not compared (the text is silent on it)",
                     "comparison is on ASTs: sync_properties re-renders the output file through black"],
    )
