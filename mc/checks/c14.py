"""
C14 - every parser returns a well-formed interface description.

The shape predicate of the property is evaluated on the output of every parser over: (a) all docstrings of <= N tokens over the
docstring token alphabet (whenever the parser returns), (b) grammar-generated docstrings in three styles with sections in every
order, (c) everything the emitters produce for the interface alphabet, re-parsed by every matching parser, (d) functions whose
docstring documents every subset and every permutation of the signature (plus *args/**kwargs).
"""
import ast
import itertools
import os
import sys
from collections import OrderedDict
from collections.abc import Mapping
from copy import deepcopy

from mc import alphabets as A
from mc import formats as F
from mc.checks import c11

PROPERTY = "C14"
STATE_IS_CASE = True

ALLOWED_KEYS = {"typ", "doc", "default", "x_typ"}


def wellformed(ir, signature=None):
    """-> list of (clause, expected, observed, extra)"""
    out = []

    def bad(clause, expected, observed, **extra):
        out.append((clause, expected, observed, extra))

    if not isinstance(ir, Mapping):
        bad("ir_type", "mapping", type(ir).__name__)
        return out
    if "name" not in ir:
        bad("name_missing", "a name key", sorted(ir))
    elif ir["name"] is not None and not isinstance(ir["name"], str):
        bad("name_type", "str or None", type(ir["name"]).__name__)
    if "doc" not in ir:
        bad("doc_missing", "a doc key", sorted(ir))
    elif ir["doc"] is not None and not isinstance(ir["doc"], str):
        bad("doc_type", "str", type(ir["doc"]).__name__)
    params = ir.get("params")
    if not isinstance(params, Mapping):
        bad("params_type", "ordered mapping", type(params).__name__)
        params = {}
    returns = ir.get("returns", None)
    entries = [(n, p, "param") for n, p in params.items()]
    if returns is not None:
        if not isinstance(returns, Mapping) or list(returns) != ["return_type"]:
            bad("returns_shape", "None or exactly {'return_type': ...}", repr(list(returns) if isinstance(returns, Mapping) else type(returns).__name__))
        else:
            entries.append(("return_type", returns["return_type"], "return"))
    for name, p, entry in entries:
        if entry == "param":
            if not isinstance(name, str) or not name:
                bad("param_name_empty", "non-empty str", repr(name))
            elif name.startswith("*"):
                bad("param_name_asterisk", "no leading asterisk", repr(name))
            elif not name.strip() or name != name.strip():
                bad("param_name_whitespace", "no surrounding whitespace", repr(name))
        if not isinstance(p, Mapping):
            bad("entry_type", "mapping", type(p).__name__, entry=entry)
            continue
        for extra in sorted(map(str, set(p) - ALLOWED_KEYS)):
            bad("entry_keys", "only typ/doc/default/x_typ", "key %r" % extra, entry=entry, key=extra)
        if "typ" in p:
            t = p["typ"]
            if not isinstance(t, str):
                bad("typ_not_str", "str", type(t).__name__, entry=entry, has_default="default" in p)
            else:
                try:
                    ast.parse(t, mode="eval")
                except SyntaxError:
                    bad("typ_not_expression", "parses as a Python expression", repr(t)[:80], entry=entry, typ_kind="empty" if not t.strip() else "text")
        if "doc" in p and not isinstance(p["doc"], str):
            bad("entry_doc_not_str", "str", type(p["doc"]).__name__, entry=entry)
    if signature is not None:
        got = list(params)
        for s, kind, documented in signature:
            n = sum(1 for g in got if isinstance(g, str) and g.lstrip("*") == s)
            if n != 1:
                bad("signature_param_count", "%s exactly once" % s, "%d times in %r" % (n, got), times=n, param_kind=kind, documented=documented)
    return out


# ---- (b) grammar-generated docstrings ---------------------------------------------------------------------

SECTIONS = {
    "rest": OrderedDict(
        header="Summary line.\n\nLonger text.\n",
        params=":param a: the a\n  continued here\n:type a: ```int```\n\n:param b: the b. Defaults to 5\n:type b: ```Optional[int]```\n",
        varargs=":param *args: positional\n:param **kwargs: keywords\n",
        varargs_typed=":param args: positional\n:type args: ```*args```\n\n:param kwargs: keywords\n:type kwargs: ```**kwargs```\n",
        returns=":return: the result\n:rtype: ```int```\n",
        raises=":raises ValueError: when bad\n",
        notes="Notes\n-----\nSome note.\n",
        usage="Example::\n\n    >>> f(1)\n    2\n",
    ),
    "google": OrderedDict(
        header="Summary line.\n\nLonger text.\n",
        params="Args:\n  a (int): the a\n    continued here\n  b (Optional[int]): the b. Defaults to 5\n",
        varargs="Args:\n  *args: positional\n  **kwargs: keywords\n",
        returns="Returns:\n  int: the result\n",
        raises="Raises:\n  ValueError: when bad\n",
        notes="Note:\n  Some note.\n",
        usage="Example:\n  >>> f(1)\n  2\n",
    ),
    "numpydoc": OrderedDict(
        header="Summary line.\n\nLonger text.\n",
        params="Parameters\n----------\na : int\n    the a\n    continued here\nb : Optional[int]\n    the b. Defaults to 5\n",
        varargs="Parameters\n----------\n*args : tuple\n    positional\n**kwargs : dict\n    keywords\n",
        returns="Returns\n-------\nint\n    the result\n",
        raises="Raises\n------\nValueError\n    when bad\n",
        notes="Notes\n-----\nSome note.\n",
        usage="Examples\n--------\n>>> f(1)\n2\n",
    ),
}


def grammar_docstrings():
    for style, secs in SECTIONS.items():
        keys = list(secs)
        for k in range(1, 5):
            for perm in itertools.permutations(keys, k):
                if "params" in perm and "varargs" in perm and style != "rest":
                    continue  # two Args: headers is not well-formed input
                if "varargs" in perm and "varargs_typed" in perm:
                    continue
                for sep in ("\n", ""):
                    for indent in ("", "    "):
                        text = sep.join(secs[s] for s in perm)
                        if indent:
                            text = "\n".join(indent + l if l else l for l in text.split("\n"))
                        yield dict(style=style, sections=list(perm), sep=len(sep), indent=len(indent)), text


# layouts of the return section: type on the line of the description / on its own line (with and without a trailing blank) x one or two description lines
RETURN_LAYOUTS = {
    "google": ["Returns:\n  int: the result\n", "Returns:\n  Dict[str, int]:\n    the result\n", "Returns:\n  Dict[str, int]: \n    the result\n",
               "Returns:\n  Dict[str, int]:\n    the result\n    over two lines\n", "Returns:\n  Dict[str, int]: \n    the result\n    over two lines\n", "Returns:\n  the result\n",
               "Returns:\n  Dict[str, int]:\n"],
    "numpydoc": ["Returns\n-------\nint\n    the result\n", "Returns\n-------\nDict[str, int] \n    the result\n", "Returns\n-------\nDict[str, int]\n    the result\n    over two lines\n",
                 "Returns\n-------\nresult : Dict[str, int]\n    the result\n", "Returns\n-------\nDict[str, int]\n"],
    "rest": [":return: the result\n:rtype: ```Dict[str, int]``` \n", ":returns: the result\n:rtype: Dict[str, int]\n", ":rtype: ```Dict[str, int]```\n:return: the result\n",
             ":return: the result\n  over two lines\n:rtype: ```Dict[str, int]```\n"],
}


# layouts of one parameter entry: subscripted types with commas of their own, the `, optional` marker, both; *args/**kwargs entries with types
PARAM_LAYOUTS = {
    "google": ["a (Dict[str, int], optional): the a", "a (int, optional): the a. Defaults to 5", "a (Tuple[float, float]): the a", "a (Literal['x', 'y'], optional): the a",
               "**kwargs (Dict[str, Any], optional): keywords", "a (Callable[[int, str], int]): the a", "a (Union[int, str], optional): the a\n    continued here", "a (Optional[Dict[str, List[int]]]): the a"],
    "numpydoc": ["a : Dict[str, int], optional\n    the a", "a : int, optional\n    the a. Defaults to 5", "a : Tuple[float, float]\n    the a", "a : Literal['x', 'y'], optional\n    the a",
                 "**kwargs : Dict[str, Any], optional\n    keywords", "a : Callable[[int, str], int]\n    the a", "a : Union[int, str], optional\n    the a\n    continued here", "a : Optional[Dict[str, List[int]]]\n    the a"],
    "rest": [":param a: the a\n:type a: ```Dict[str, int]```", ":param a: the a\n:type a: Dict[str, int]", ":param a: the a\n:type a: ```Optional[Dict[str, List[int]]]```", ":param a: the a\n:type a: ```Callable[[int, str], int]```",
             ":param kwargs: keywords\n:type kwargs: ```**Dict[str, Any]```"],
}


def param_layout_docstrings():
    for style, layouts in PARAM_LAYOUTS.items():
        secs = SECTIONS[style]
        head = {"google": "Args:\n", "numpydoc": "Parameters\n----------\n", "rest": ""}[style]
        ind = "  " if style == "google" else ""
        for li, layout in enumerate(layouts):
            for second in (None, {"google": "b (int): the b", "numpydoc": "b : int\n    the b", "rest": ":param b: the b\n:type b: ```int```"}[style]):
                entries = [layout] + ([second] if second else [])
                for order in ((0, 1), (1, 0)) if second else ((0,),):
                    body = head + "".join("\n".join(ind + l for l in entries[i].split("\n")) + "\n" + ("\n" if style == "rest" else "") for i in order)
                    for before, after in ((["header"], []), ([], ["returns"]), (["header"], ["returns", "notes"])):
                        for indent in ("", "    "):
                            text = "\n".join([secs[x] for x in before] + [body] + [secs[x] for x in after])
                            if indent:
                                text = "\n".join(indent + l if l else l for l in text.split("\n"))
                            yield dict(style=style, sections=before + ["param#%d%s" % (li, "" if not second else "+b" if order == (0, 1) else "b+")] + after, sep=1, indent=len(indent)), text


def return_layout_docstrings():
    for style, layouts in RETURN_LAYOUTS.items():
        secs = SECTIONS[style]
        for li, layout in enumerate(layouts):
            for before in (["header", "params"], ["header"], ["params"], []):
                for after in ([], ["notes"]):
                    for sep in ("\n", ""):
                        for indent in ("", "    "):
                            text = sep.join([secs[s] for s in before] + [layout] + [secs[s] for s in after])
                            if indent:
                                text = "\n".join(indent + l if l else l for l in text.split("\n"))
                            yield dict(style=style, sections=before + ["returns#%d" % li] + after, sep=len(sep), indent=len(indent)), text


# ---- (d) partially documented signatures ---------------------------------------------------------------------

SIG = ["a", "b", "c"]


def doc_for(style, names):
    if not names:
        return "Summary."
    if style == "rest":
        return "Summary.\n\n" + "\n".join(":param %s: the %s\n:type %s: ```int```\n" % (n, n, n) for n in names)
    if style == "google":
        return "Summary.\n\nArgs:\n" + "".join("  %s (int): the %s\n" % (n, n) for n in names)
    return "Summary.\n\nParameters\n----------\n" + "".join("%s : int\n    the %s\n" % (n, n) for n in names)


def partial_functions():
    for style in ("rest", "google", "numpydoc"):
        for k in range(0, 4):
            for names in itertools.permutations(SIG, k):
                for header in ("def f(a, b, c):", "def f(a, b=2, c=3):", "def f(self, a, b, c=3):", "def f(a, *, b, c=1):", "def f(a, b, c, *args, **kwargs):", "def f(a: int, b: Optional[str] = None, c: float = 0.5) -> bool:",
                               # positional-only markers: a receiver before the slash, ordinary parameters before the slash
                               "def f(self, /, a, b, c=3):", "def f(cls, /, a, b=2, c=3):", "def f(a, /, b, c=1):", "def f(a, b=2, /, c=3):"):
                    for indent in (False, True):
                        doc = doc_for(style, list(names))
                        if header.endswith("**kwargs):") and k == 3:
                            doc += {"rest": "\n:param args: rest\n:param kwargs: more\n", "google": "  *args: rest\n  **kwargs: more\n", "numpydoc": "*args : tuple\n    rest\n**kwargs : dict\n    more\n"}[style]
                        if indent:
                            doc = "\n" + "\n".join("    " + l if l else l for l in doc.split("\n")) + "\n    "
                        src = '%s\n    """%s"""\n    return a\n' % (header, doc)
                        yield dict(style=style, documented=list(names), header=header, indent=indent), src


# ---- (e) JSON-schema documents built from a property-feature alphabet ------------------------------------------
JS_TYPES = [("string", "string"), ("integer", "integer"), ("number", "number"), ("boolean", "boolean"), ("object", "object"), ("array", "array"),
            ("nullable_string", ["string", "null"]), ("absent", None)]
JS_PATTERNS = [("absent", None), ("words", "a|b"), ("one_word", "a"), ("hyphen_space", "x-y|p q"), ("digit_underscore", "mean_squared_error|l1|hinge"),
               ("regex", "^[a-z]+$"), ("empty", "")]
JS_EXTRAS = [("none", {}), ("enum", {"enum": ["a", "b"]}), ("format", {"format": "date-time"}), ("items", {"items": {"type": "string"}}), ("ref", {"$ref": "#/$defs/other"}),
             ("anyof", {"anyOf": [{"type": "string"}, {"type": "integer"}]}), ("bounds", {"minimum": 0, "maxLength": 5}), ("title", {"title": "Alpha", "examples": ["a"]})]
JS_DEFAULTS = [("absent", None), ("value", True)]
JS_DOCS = [("doc", "the value"), ("nodoc", None)]


def json_schema_documents():
    for (tk, t), (pk, pat), (xk, extra), (dk, d), (ck, c), required in itertools.product(JS_TYPES, JS_PATTERNS, JS_EXTRAS, JS_DEFAULTS, JS_DOCS, (True, False)):
        prop = {}
        if c is not None:
            prop["description"] = c
        if t is not None:
            prop["type"] = t
        if pat is not None:
            prop["pattern"] = pat
        prop.update(extra)
        if d is not None:
            base = t[0] if isinstance(t, list) else t
            prop["default"] = {"string": "a", "integer": 5, "number": 0.5, "boolean": True, "object": {"k": 1}, "array": ["a"], None: "a"}[base]
        doc = {"$id": "https://example.com/cfg.schema.json", "$schema": "https://json-schema.org/draft/2020-12/schema", "description": "Summary line.", "type": "object",
               "properties": {"alpha": prop, "beta": {"description": "the other", "type": "integer"}}, "required": ["alpha", "beta"] if required else ["beta"]}
        yield dict(typ=tk, pattern=pk, extra=xk, default=dk, doc=ck, required=required), doc


# ---- (f) live objects: the same parsers accept functions and classes that exist in memory (inspect-based path) ---------------
LIVE_CLASS_DOCS = {
    "rest": "Summary.\n\n    :cvar a: the a\n    :cvar b: the b. Defaults to 5\n    ",
    "google": "Summary.\n\n    Attributes:\n      a (int): the a\n      b (int): the b\n    ",
    "numpydoc": "Summary.\n\n    Attributes\n    ----------\n    a : int\n        the a\n    b : int\n        the b\n    ",
    "none": None,
}
LIVE_CLASS_BODIES = [
    ("annotated", "    a: int = 1\n    b: int = 5\n"),
    ("plain", "    a = 1\n    b = 5\n"),
    ("annotation_only", "    a: int\n    b: Optional[str]\n"),
    ("with_call", "    a: int = 1\n\n    def __call__(self, c, d=2):\n        \"\"\"\n        Call.\n\n        :param c: the c\n        :param d: the d\n        \"\"\"\n        return c\n"),
    ("with_static", "    a: int = 1\n\n    @staticmethod\n    def create(c, d=2):\n        \"\"\"\n        Create.\n\n        :param d: the d\n        \"\"\"\n        return c\n"),
    ("with_init", "    def __init__(self, a, b: int = 5):\n        \"\"\"\n        Init.\n\n        :param a: the a\n        :param b: the b\n        \"\"\"\n        self.a = a\n"),
]


def live_classes():
    for (dk, doc), (bk, body), merge in itertools.product(LIVE_CLASS_DOCS.items(), LIVE_CLASS_BODIES, (None, "__call__", "__init__", "create")):
        if merge and merge not in body:
            continue
        src = "from typing import Optional\n\n\nclass Cfg(object):\n" + ('    """%s"""\n\n' % doc if doc is not None else "") + body
        yield dict(doc=dk, body=bk, merge=merge), src


# ---- (g) legal but unusually laid out definitions -------------------------------------------------------------------------------------------
LAYOUT_CLASSES = [
    ("multi_target", 'class C(object):\n    """\n    Summary.\n\n    :cvar a: the a\n    :cvar b: the b\n    """\n\n    a = b = 5\n'),
    ("tuple_unpack", 'class C(object):\n    """\n    Summary.\n\n    :cvar a: the a\n    :cvar b: the b\n    """\n\n    a, b = 1, 2\n'),
    ("aug_assign", 'class C(object):\n    """\n    Summary.\n\n    :cvar a: the a\n    """\n\n    a: int = 1\n    a += 1\n'),
    ("type_comment", 'class C(object):\n    """\n    Summary.\n\n    :cvar a: the a\n    """\n\n    a = 5  # type: int\n'),
    ("comment_between", 'class C(object):\n    """\n    Summary.\n\n    :cvar a: the a\n    :cvar b: the b\n    """\n\n    a: int = 1\n    # a comment\n\n\n    b: str = "x"  # trailing\n'),
    ("method_first", 'class C(object):\n    """\n    Summary.\n\n    :cvar a: the a\n    """\n\n    def m(self):\n        return 1\n\n    a: int = 1\n'),
    ("nested_class", 'class C(object):\n    """\n    Summary.\n\n    :cvar a: the a\n    """\n\n    class Meta:\n        b: int = 2\n\n    a: int = 1\n'),
    ("if_block", 'class C(object):\n    """\n    Summary.\n\n    :cvar a: the a\n    """\n\n    if True:\n        a: int = 1\n    else:\n        a: int = 2\n'),
    ("no_docstring", 'class C(object):\n    a: int = 1\n    b: Optional[str] = None\n'),
    ("docstring_only", 'class C(object):\n    """\n    Summary.\n\n    :cvar a: the a\n    :cvar b: the b\n    """\n'),
    ("empty_body", "class C(object):\n    pass\n"),
    ("ellipsis_body", "class C(object):\n    ...\n"),
    ("annotated_no_value", 'class C(object):\n    """\n    Summary.\n\n    :cvar a: the a\n    """\n\n    a: int\n    b: "ForwardRef"\n'),
    ("star_attr", 'class C(object):\n    """\n    Summary.\n\n    :cvar args: the args\n    :cvar kwargs: the kwargs\n    """\n\n    args: tuple = ()\n    kwargs: Optional[dict] = None\n'),
    ("lambda_value", 'class C(object):\n    """\n    Summary.\n\n    :cvar f: the f\n    """\n\n    f = lambda self, x: x\n'),
    ("subscript_target", 'class C(object):\n    """\n    Summary.\n    """\n\n    d = {}\n    d["k"] = 1\n'),
    ("attribute_target", 'class C(object):\n    """\n    Summary.\n    """\n\n    a = object()\n    a.b = 1\n'),
    ("decorated_bases", '@dataclass(frozen=True)\nclass C(Base, metaclass=Meta, total=False):\n    """\n    Summary.\n\n    :cvar a: the a\n    """\n\n    a: int = 1\n'),
    ("return_type_attr", 'class C(object):\n    """\n    Summary.\n\n    :cvar a: the a\n    :cvar return_type: the rt\n    """\n\n    a: int = 1\n    return_type: str = "x"\n'),
    ("walrus_value", 'class C(object):\n    """\n    Summary.\n\n    :cvar a: the a\n    """\n\n    a: int = (b := 5)\n'),
    ("fstring_value", 'class C(object):\n    """\n    Summary.\n\n    :cvar a: the a\n    """\n\n    a: str = f"x{1}"\n'),
    ("bytes_value", 'class C(object):\n    """\n    Summary.\n\n    :cvar a: the a\n    """\n\n    a: bytes = b"x"\n'),
    ("negative_value", 'class C(object):\n    """\n    Summary.\n\n    :cvar a: the a\n    """\n\n    a: int = -5\n    b: float = -0.5\n    c: complex = 1j\n'),
    ("set_value", 'class C(object):\n    """\n    Summary.\n\n    :cvar a: the a\n    """\n\n    a: set = {1, 2}\n    b: frozenset = frozenset()\n    c: dict = {}\n    d: list = []\n    e: tuple = ()\n'),
]
LAYOUT_FUNCTIONS = [
    ("posonly_kwonly", 'def f(a, /, b, *, c=1):\n    """\n    Summary.\n\n    :param a: the a\n    :param b: the b\n    :param c: the c\n    """\n    return a\n'),
    ("async_def", 'async def f(a, b=2):\n    """\n    Summary.\n\n    :param a: the a\n    :param b: the b\n    """\n    return a\n'),
    ("decorated", '@deco(1)\n@other\ndef f(a, b=2):\n    """\n    Summary.\n\n    :param a: the a\n    :param b: the b\n    """\n    return a\n'),
    ("continuation", 'def f(a, \\\n      b=2):\n    """\n    Summary.\n\n    :param a: the a\n    :param b: the b\n    """\n    return a\n'),
    ("comment_in_header", 'def f(\n    a,  # the a\n    b=2,  # the b\n):\n    """\n    Summary.\n\n    :param a: the a\n    :param b: the b\n    """\n    return a\n'),
    ("type_comments", 'def f(a, b=2):\n    # type: (int, int) -> int\n    """\n    Summary.\n\n    :param a: the a\n    :param b: the b\n    """\n    return a\n'),
    ("nested_def", 'def f(a):\n    """\n    Summary.\n\n    :param a: the a\n    """\n    def g(b):\n        """\n        Inner.\n\n        :param b: the b\n        """\n        return b\n    return g\n'),
    ("lambda_default", 'def f(a, cb=lambda x: x + 1):\n    """\n    Summary.\n\n    :param a: the a\n    :param cb: the cb\n    """\n    return cb(a)\n'),
    ("star_only", 'def f(*args, **kwargs):\n    """\n    Summary.\n\n    :param args: the args\n    :param kwargs: the kwargs\n    """\n    return args\n'),
    ("docstring_not_first", 'def f(a):\n    x = 1\n    """\n    Not a docstring.\n\n    :param a: the a\n    """\n    return a\n'),
    ("no_params", 'def f():\n    """\n    Summary.\n\n    :return: the result\n    :rtype: ```int```\n    """\n    return 1\n'),
    ("return_annotation_complex", 'def f(a: "int", b: Optional[List[Dict[str, int]]] = None) -> Tuple[int, ...]:\n    """\n    Summary.\n\n    :param a: the a\n    :param b: the b\n    """\n    return (a,)\n'),
    ("self_only", 'def f(self):\n    """\n    Summary.\n    """\n    return self\n'),
    ("cls_first", 'def f(cls, a=1):\n    """\n    Summary.\n\n    :param a: the a\n    """\n    return a\n'),
    ("yield_body", 'def f(a):\n    """\n    Summary.\n\n    :param a: the a\n\n    :return: items\n    """\n    yield a\n'),
    ("multiple_returns", 'def f(a):\n    """\n    Summary.\n\n    :param a: the a\n    """\n    if a:\n        return 1\n    return "x"\n'),
    ("ellipsis_default", 'def f(a=..., b=None, c=NotImplemented):\n    """\n    Summary.\n\n    :param a: the a\n    :param b: the b\n    :param c: the c\n    """\n    return a\n'),
    ("unicode_names", 'def f(número, größe=2):\n    """\n    Summary.\n\n    :param número: the n\n    :param größe: the g\n    """\n    return número\n'),
]
LAYOUT_ARGPARSE = [
    ("positional", 'def set_cli_args(argument_parser):\n    """\n    Set CLI arguments\n\n    :param argument_parser: argument parser\n    :type argument_parser: ```ArgumentParser```\n\n    :return: argument_parser\n    :rtype: ```ArgumentParser```\n    """\n    argument_parser.description = "Summary."\n    argument_parser.add_argument("name", help="the name")\n    return argument_parser\n'),
    ("short_and_long", 'def set_cli_args(argument_parser):\n    """\n    Set CLI arguments\n\n    :param argument_parser: argument parser\n    :type argument_parser: ```ArgumentParser```\n\n    :return: argument_parser\n    :rtype: ```ArgumentParser```\n    """\n    argument_parser.description = "Summary."\n    argument_parser.add_argument("-n", "--name", help="the name", default="x")\n    return argument_parser\n'),
    ("nargs_action", 'def set_cli_args(argument_parser):\n    """\n    Set CLI arguments\n\n    :param argument_parser: argument parser\n    :type argument_parser: ```ArgumentParser```\n\n    :return: argument_parser\n    :rtype: ```ArgumentParser```\n    """\n    argument_parser.description = "Summary."\n    argument_parser.add_argument("--names", nargs="+", help="the names")\n    argument_parser.add_argument("--flag", action="store_true", help="a flag")\n    argument_parser.add_argument("--count", action="count", default=0)\n    return argument_parser\n'),
    ("dest_metavar", 'def set_cli_args(argument_parser):\n    """\n    Set CLI arguments\n\n    :param argument_parser: argument parser\n    :type argument_parser: ```ArgumentParser```\n\n    :return: argument_parser\n    :rtype: ```ArgumentParser```\n    """\n    argument_parser.description = "Summary."\n    argument_parser.add_argument("--the-name", dest="name", metavar="NAME", help="the name", type=str, required=False)\n    return argument_parser\n'),
    ("no_help", 'def set_cli_args(argument_parser):\n    """\n    Set CLI arguments\n\n    :param argument_parser: argument parser\n    :type argument_parser: ```ArgumentParser```\n\n    :return: argument_parser\n    :rtype: ```ArgumentParser```\n    """\n    argument_parser.description = "Summary."\n    argument_parser.add_argument("--a")\n    argument_parser.add_argument("--b", type=int)\n    return argument_parser\n'),
    ("other_statements", 'def set_cli_args(argument_parser):\n    """\n    Set CLI arguments\n\n    :param argument_parser: argument parser\n    :type argument_parser: ```ArgumentParser```\n\n    :return: argument_parser\n    :rtype: ```ArgumentParser```\n    """\n    argument_parser.description = "Summary."\n    group = argument_parser.add_argument_group("g")\n    group.add_argument("--a", help="the a", default=1)\n    argument_parser.set_defaults(a=2)\n    x = 5\n    return argument_parser\n'),
    ("tuple_return", 'def set_cli_args(argument_parser):\n    """\n    Set CLI arguments\n\n    :param argument_parser: argument parser\n    :type argument_parser: ```ArgumentParser```\n\n    :return: argument_parser, the result\n    :rtype: ```Tuple[ArgumentParser, int]```\n    """\n    argument_parser.description = "Summary."\n    argument_parser.add_argument("--a", help="the a", type=int, default=1)\n    return argument_parser, 5\n'),
    ("no_description", 'def set_cli_args(argument_parser):\n    """\n    Set CLI arguments\n\n    :param argument_parser: argument parser\n    :type argument_parser: ```ArgumentParser```\n\n    :return: argument_parser\n    :rtype: ```ArgumentParser```\n    """\n    argument_parser.add_argument("--a", help="the a", type=int, default=1)\n    return argument_parser\n'),
    ("choices_mixed", 'def set_cli_args(argument_parser):\n    """\n    Set CLI arguments\n\n    :param argument_parser: argument parser\n    :type argument_parser: ```ArgumentParser```\n\n    :return: argument_parser\n    :rtype: ```ArgumentParser```\n    """\n    argument_parser.description = "Summary."\n    argument_parser.add_argument("--a", choices=("x", 1, None), help="the a")\n    argument_parser.add_argument("--b", choices=range(3), type=int)\n    return argument_parser\n'),
]


def sqlalchemy_layouts():
    """hand-written models: every subset of {primary_key, ForeignKey, nullable, default, comment, unique+index} on one column, documented in the class
    docstring or not, as a declarative class and as a Table expression"""
    opts = ["pk", "fk", "nullable", "default", "comment", "unique"]
    for r in range(0, len(opts) + 1):
        for subset in itertools.combinations(opts, r):
            if r > 3 and not ("pk" in subset and "fk" in subset):
                continue
            args = ["Integer"]
            if "fk" in subset:
                args.append('ForeignKey("person.id")')
            if "pk" in subset:
                args.append("primary_key=True")
            if "nullable" in subset:
                args.append("nullable=True")
            if "default" in subset:
                args.append("default=5")
            if "comment" in subset:
                args.append('comment="the owner"')
            if "unique" in subset:
                args += ["unique=True", "index=True"]
            for documented in (False, True):
                doc = '    """\n    A model.\n\n    :cvar owner_id: the owner\n    :cvar name: the name\n    """\n' if documented else '    """A model."""\n'
                cls = "class Account(Base):\n" + doc + '    __tablename__ = "account"\n\n    owner_id = Column(%s)\n    name = Column(String, doc="the name")\n' % ", ".join(args)
                yield dict(form="class", opts=",".join(subset) or "none", documented=documented), cls
            tbl = 'account = Table("account", metadata, Column("owner_id", %s), Column("name", String, doc="the name"), comment="A model.")\n' % ", ".join(args)
            yield dict(form="table", opts=",".join(subset) or "none", documented=False), tbl


def _import_scratch(src, tag):
    """write src as a module of its own and import it (live objects need retrievable source)"""
    import importlib.util
    import tempfile

    d = tempfile.mkdtemp(prefix="c14_live_")
    path = os.path.join(d, "c14_live_%s.py" % tag)
    with open(path, "wt") as f:
        f.write(src)
    spec = importlib.util.spec_from_file_location("c14_live_%s" % tag, path)
    mod = importlib.util.module_from_spec(spec)
    sys.modules[spec.name] = mod  # inspect.getsource of a class goes through sys.modules
    spec.loader.exec_module(mod)
    return mod, d


def cases(tier, seed):
    n = 3 if tier == "quick" else 4
    yield dict(kind="layout_block")
    yield dict(kind="sqlalchemy_layout_block")
    pf_live = list(partial_functions())
    for lo in range(0, len(pf_live), 40):
        yield dict(kind="live_function_block", lo=lo, hi=lo + 40)
    yield dict(kind="live_class_block")
    js = list(json_schema_documents())
    for lo in range(0, len(js), 64):
        yield dict(kind="json_schema_block", lo=lo, hi=lo + 64)
    yield dict(kind="doc_block", prefix=[], maxlen=1)
    for i in range(len(c11.SIGMA_DOC)):
        for j in range(len(c11.SIGMA_DOC)):
            yield dict(kind="doc_block", prefix=[i, j], maxlen=n)
    # argument sections built from whole-line units (the C11 family): entries without description or type, body-less header-like lines, continuation lines
    for style in c11.UNITS:
        for i in range(len(c11.UNITS[style][1])):
            yield dict(kind="unit_block", style=style, first=i, maxlen=3 if tier == "quick" else 4)
    gd = list(grammar_docstrings()) + list(return_layout_docstrings()) + list(param_layout_docstrings())
    for lo in range(0, len(gd), 50):
        yield dict(kind="grammar_block", lo=lo, hi=lo + 50)
    pf = list(partial_functions())
    for lo in range(0, len(pf), 40):
        yield dict(kind="partial_block", lo=lo, hi=lo + 40)
    full = A.sigma_param()
    small = A.sigma_int()
    for key, ir in A.ir_space(full, small, 2, returns_n=A.RETURNS[:3]):
        yield dict(kind="reparse", key=key, ir=F.ir_to_json(ir))


REPARSE = [("class", {}), ("pydantic", {}), ("function", dict(type_annotations=True)), ("function", dict(type_annotations=False)), ("argparse", {}), ("docstring", {}),
           ("json_schema", {}), ("sqlalchemy", {}), ("sqlalchemy_table", {}), ("sqlalchemy_hybrid", {})]


def run(case):
    import cdd.docstring.parse
    import cdd.function.parse
    import cdd.shared.docstring_parsers

    viol, n, transitions, outcomes = [], 0, 0, set()

    def report(parser, ir, sub, signature=None, **ctx):
        for clause, exp, obs, extra in wellformed(ir, signature):
            sig = dict(check="wellformed", parser=parser, clause=clause)
            sig.update(ctx)
            sig.update(extra)
            if not any(x["sig"] == sig for x in viol):
                viol.append(dict(sig=sig, expected=exp, observed=obs, case=sub))

    if case["kind"] == "doc_string" and case.get("source") == "grammar":
        n, transitions = 1, 1
        try:
            ir = cdd.docstring.parse.docstring(case["string"])
            outcomes.add("returns")
            report("docstring", ir, case, source="grammar", style=case["style"])
        except Exception:
            outcomes.add("raises")
    elif case["kind"] in ("doc_block", "doc_string", "unit_block"):
        for s in c11._doc_strings(case):
            n += 1
            for edd in (True, False):
                transitions += 1
                try:
                    ir = cdd.shared.docstring_parsers.parse_docstring(s, emit_default_doc=edd)
                except Exception:
                    outcomes.add("raises")
                    continue
                outcomes.add("returns")
                report("docstring", ir, dict(kind="doc_string", string=s), source="units" if case["kind"] == "unit_block" else "tokens")
    elif case["kind"] == "grammar_block":
        for key, text in (list(grammar_docstrings()) + list(return_layout_docstrings()) + list(param_layout_docstrings()))[case["lo"]: case["hi"]]:
            n += 1
            transitions += 1
            try:
                ir = cdd.docstring.parse.docstring(text)
            except Exception:
                outcomes.add("raises")
                continue
            outcomes.add("returns")
            report("docstring", ir, dict(kind="doc_string", string=text, source="grammar", style=key["style"]), source="grammar", style=key["style"])
    elif case["kind"] in ("partial_block", "partial_one"):
        items = [(case["key"], case["src"])] if case["kind"] == "partial_one" else list(partial_functions())[case["lo"]: case["hi"]]
        for key, src in items:
            n += 1
            transitions += 1
            fn = ast.parse(src).body[0]
            # the function_type keyword only labels the interface: whatever is passed, the parameters are those of the signature
            for ft in ("self", "cls", "static"):
                transitions += 1
                try:
                    ir_ft = cdd.function.parse.function(ast.parse(src).body[0], function_type=ft)
                except Exception:
                    continue
                if not key["header"].startswith(("def f(self", "def f(cls")):
                    want = [a.arg for a in fn.args.posonlyargs + fn.args.args + fn.args.kwonlyargs]
                    got = [g for g in ir_ft["params"] if g in want]
                    if sorted(got) != sorted(want):
                        for clause, exp, obs, extra in [("signature_param_count", "every parameter of %r" % (want,), repr(list(ir_ft["params"])), dict(function_type=ft, times=0))]:
                            sig = dict(check="wellformed", parser="function", clause=clause, source="partial", style=key["style"], n_documented=len(key["documented"]), header_kind=key["header"].split("(", 1)[1])
                            sig.update(extra)
                            if not any(x["sig"] == sig for x in viol):
                                viol.append(dict(sig=sig, expected=exp, observed=obs, case=dict(kind="partial_one", key=key, src=src)))
            try:
                ir = cdd.function.parse.function(fn)
            except Exception as e:
                outcomes.add("raises")
                continue
            outcomes.add("returns")
            args = fn.args
            doc_text = ast.get_docstring(fn) or ""
            names = [(a.arg, "positional") for a in args.posonlyargs + args.args] + [(a.arg, "kwonly") for a in args.kwonlyargs]
            if names and names[0][0] in ("self", "cls"):
                names = names[1:]
            if args.vararg:
                names.append((args.vararg.arg, "vararg"))
            if args.kwarg:
                names.append((args.kwarg.arg, "kwarg"))
            names = [(nm, kind, (nm in key["documented"]) or (kind in ("vararg", "kwarg") and nm in doc_text)) for nm, kind in names]
            report("function", ir, dict(kind="partial_one", key=key, src=src), signature=names, source="partial", style=key["style"], n_documented=len(key["documented"]),
                   header_kind=key["header"].split("(", 1)[1])
    elif case["kind"] in ("layout_block", "layout_one"):
        import cdd.argparse_function.parse
        import cdd.class_.parse

        items = [(case["family"], case["name"], case["src"])] if case["kind"] == "layout_one" else (
            [("class", n, s_) for n, s_ in LAYOUT_CLASSES] + [("function", n, s_) for n, s_ in LAYOUT_FUNCTIONS] + [("argparse", n, s_) for n, s_ in LAYOUT_ARGPARSE])
        for family, name, src in items:
            node = next(x for x in ast.parse(src).body if isinstance(x, (ast.ClassDef, ast.FunctionDef, ast.AsyncFunctionDef)))
            parsers = {"class": [("class", lambda n_: cdd.class_.parse.class_(n_)), ("class_infer", lambda n_: cdd.class_.parse.class_(n_, infer_type=True))],
                       "function": [("function", lambda n_: cdd.function.parse.function(n_)), ("function_infer", lambda n_: cdd.function.parse.function(n_, infer_type=True))],
                       "argparse": [("argparse", lambda n_: cdd.argparse_function.parse.argparse_ast(n_))]}[family]
            for pname, f in parsers:
                n += 1
                transitions += 1
                try:
                    ir = f(node)
                except Exception:
                    outcomes.add("raises")
                    continue
                outcomes.add("returns")
                sig_names = None
                if family == "function":
                    args = node.args
                    nm = [(a.arg, "positional") for a in args.posonlyargs + args.args] + [(a.arg, "kwonly") for a in args.kwonlyargs]
                    if nm and nm[0][0] in ("self", "cls"):
                        nm = nm[1:]
                    if args.vararg:
                        nm.append((args.vararg.arg, "vararg"))
                    if args.kwarg:
                        nm.append((args.kwarg.arg, "kwarg"))
                    sig_names = [(a, k, a in src.split('"""')[1] if src.count('"""') >= 2 else False) for a, k in nm]
                report(pname, ir, dict(kind="layout_one", family=family, name=name, src=src), signature=sig_names, source="layout", layout=name)
    elif case["kind"] in ("sqlalchemy_layout_block", "sqlalchemy_layout_one"):
        import cdd.sqlalchemy.parse

        items = [(case["key"], case["src"])] if case["kind"] == "sqlalchemy_layout_one" else list(sqlalchemy_layouts())
        for key, src in items:
            node = ast.parse(src).body[0]
            variants = [("sqlalchemy", cdd.sqlalchemy.parse.sqlalchemy), ("sqlalchemy_hybrid", cdd.sqlalchemy.parse.sqlalchemy_hybrid)] if key["form"] == "class" else [("sqlalchemy_table", cdd.sqlalchemy.parse.sqlalchemy_table)]
            for pname, f in variants:
                n += 1
                transitions += 1
                try:
                    ir = f(ast.parse(src).body[0])  # a fresh tree per parser: the declarative parser rewrites the node it is given
                except Exception:
                    outcomes.add("raises")
                    continue
                outcomes.add("returns")
                report(pname, ir, dict(kind="sqlalchemy_layout_one", key=key, src=src), source="sqlalchemy_layout", pk="pk" in key["opts"], fk="fk" in key["opts"], documented=key["documented"])
    elif case["kind"] in ("live_function_block", "live_function_one"):
        import shutil

        items = [(case["key"], case["src"])] if case["kind"] == "live_function_one" else list(partial_functions())[case["lo"]: case["hi"]]
        for i, (key, src) in enumerate(items):
            n += 1
            transitions += 1
            mod, d = _import_scratch("from typing import Optional\n\n\n" + src, "f%d" % i)
            try:
                try:
                    ir = cdd.function.parse.function(mod.f)
                except Exception:
                    outcomes.add("raises")
                    continue
                outcomes.add("returns")
                fn = ast.parse(src).body[0]
                args = fn.args
                names = [(a.arg, "positional") for a in args.posonlyargs + args.args] + [(a.arg, "kwonly") for a in args.kwonlyargs]
                if names and names[0][0] in ("self", "cls"):
                    names = names[1:]
                if args.vararg:
                    names.append((args.vararg.arg, "vararg"))
                if args.kwarg:
                    names.append((args.kwarg.arg, "kwarg"))
                doc_text = ast.get_docstring(fn) or ""
                names = [(nm, kind, (nm in key["documented"]) or (kind in ("vararg", "kwarg") and nm in doc_text)) for nm, kind in names]
                report("function_live", ir, dict(kind="live_function_one", key=key, src=src), signature=names, source="live", style=key["style"], n_documented=len(key["documented"]),
                       header_kind=key["header"].split("(", 1)[1])
            finally:
                shutil.rmtree(d, ignore_errors=True)
    elif case["kind"] in ("live_class_block", "live_class_one"):
        import shutil

        import cdd.class_.parse

        items = [(case["key"], case["src"])] if case["kind"] == "live_class_one" else list(live_classes())
        for i, (key, src) in enumerate(items):
            n += 1
            transitions += 1
            mod, d = _import_scratch(src, "c%d" % i)
            try:
                try:
                    ir = cdd.class_.parse.class_(mod.Cfg, merge_inner_function=key["merge"])
                except Exception:
                    outcomes.add("raises")
                    continue
                outcomes.add("returns")
                report("class_live", ir, dict(kind="live_class_one", key=key, src=src), source="live", style=key["doc"], body=key["body"], merge=str(key["merge"]))
            finally:
                shutil.rmtree(d, ignore_errors=True)
    elif case["kind"] in ("json_schema_block", "json_schema_one"):
        import cdd.json_schema.parse

        items = [(case["key"], case["doc"])] if case["kind"] == "json_schema_one" else list(json_schema_documents())[case["lo"]: case["hi"]]
        for key, doc in items:
            n += 1
            transitions += 1
            try:
                ir = cdd.json_schema.parse.json_schema(deepcopy(doc))
            except Exception:
                outcomes.add("raises")
                continue
            outcomes.add("returns")
            sub = dict(kind="json_schema_one", key=key, doc=doc)
            for clause, exp, obs, extra in wellformed(ir):
                sig = dict(check="wellformed", parser="json_schema", clause=clause, source="handwritten")
                sig.update(extra)
                if extra.get("key") == "pattern":
                    sig["js_pattern"] = key["pattern"]  # which kind of pattern text was left behind
                if clause != "entry_keys":
                    sig.update(js_typ=key["typ"], js_extra=key["extra"])
                if not any(x["sig"] == sig for x in viol):
                    viol.append(dict(sig=sig, expected=exp, observed=obs, case=sub))
    elif case["kind"] == "reparse":
        ir0 = F.ir_from_json(case["ir"])
        from mc.checks import c08

        for fmt, kw in REPARSE:
            if not (c08.applicable(fmt, "rest", ir0) or (fmt == "json_schema" and all(str(p.get("typ")).startswith("Literal[") or {p.get("typ")} <= c08.JSON_TYPES for p in ir0["params"].values()))):
                continue  # outside that format's representable domain (any Literal is representable as a JSON-schema pattern)
            for style in F.STYLES if fmt in ("class", "function", "docstring") else ("rest",):
                n += 1
                transitions += 2
                try:
                    back, text = F.hop(fmt, ir0, style, fmt == "docstring", **kw)
                except F.HopError:
                    outcomes.add("hop-raises")
                    continue
                except Exception:
                    outcomes.add("hop-raises")
                    continue
                outcomes.add("returns")
                report(fmt, back, dict(kind="reparse", key=case.get("key"), ir=case["ir"]), source="emitted", style=style)
    return dict(outcome="+".join(sorted(outcomes)), transitions=transitions, evaluations=max(n, 1), violations=viol, extra=dict(n_case_states=max(n, 1) - 1))


def describe(tier):
    return dict(
        rule="(a) every docstring of <= {n} tokens over the 28-token alphabet (parser outputs whenever it returns, both emit_default_doc); (b) {g} "
        "grammar-generated docstrings: 3 styles x all orders of <= 4 of 7 sections x separators x indentation; (c) every interface of I(1) u I(2) "
        "emitted through 10 format variants and re-parsed; (d) {p} functions documenting every subset and permutation of a 3-parameter "
        "signature under 5 signature shapes (defaults, self, keyword-only, *args/**kwargs), 3 styles, indented or not; (f) the same {p} functions and {lc} classes (4 docstring styles x 5 bodies x merge_inner_function) imported from a scratch module and "
        "parsed as live objects (inspect path); (g) {lay} legal but unusually laid out classes, functions and argparse functions (multi-target and tuple assignments, type comments, nested and decorated definitions, "
        "positional-only/keyword-only, async, line continuation, argparse positionals/nargs/actions/groups) through the AST parsers with and without infer_type; (h) {sq} hand-written SQLAlchemy models (subsets of primary_key / ForeignKey / nullable / default / comment / unique on one column, documented or not, class and Table forms); (e) {j} JSON-schema documents: a property built from "
        "8 types x 7 patterns (word lists, lists with non-letters, a real regex) x 8 further keywords (enum, format, items, $ref, anyOf, bounds, title) x default x description x required; "
        "a case = one parser input".format(n=3 if tier == "quick" else 4, g=sum(1 for _ in grammar_docstrings()) + sum(1 for _ in return_layout_docstrings()) + sum(1 for _ in param_layout_docstrings()), p=sum(1 for _ in partial_functions()), j=sum(1 for _ in json_schema_documents()), lc=sum(1 for _ in live_classes()), lay=len(LAYOUT_CLASSES) + len(LAYOUT_FUNCTIONS) + len(LAYOUT_ARGPARSE), sq=sum(1 for _ in sqlalchemy_layouts())),
        bounds=dict(sigma_doc=c11.SIGMA_DOC, sections=list(SECTIONS["rest"]), signature=SIG),
        exhaustive=True,
        assumptions=["shape predicate mc/checks/c14.py:wellformed transcribes the property text; 'doc' may be None at the top level as the declared type says Optional[str]"],
    )


def standalone(case):
    if case.get("kind") != "doc_string":
        return None
    return "import cdd.docstring.parse\nir = cdd.docstring.parse.docstring({s!r})\nprint(ir)  # inspect names / typ / doc against the shape the property describes\n".format(s=case["string"])
