"""
C15 - docstring prose outside the parameter section is preserved.

Exhaustive over docstrings assembled from header x section (3 styles) x footer x indentation x leading newline x separator x trailing
whitespace.  Oracle: (1) the header/args/footer split concatenates back to the original text; (2) after converting to each target
style every header prose line is still present, in order; (3) no prose line is absorbed into a parsed type or default.
"""
import ast
import itertools

PROPERTY = "C15"
STATE_IS_CASE = True

HEADERS = [
    ("one", ["Summary line of the thing."]),
    ("two", ["Summary line of the thing.", "", "Longer description that explains", "the thing over two lines."]),
    ("bullets", ["Summary line of the thing.", "", "It does:", "- first item", "- second item"]),
    ("colon_end", ["Summary line of the thing.", "", "The options are as follows:"]),
    # paragraphs of different indentation: an indented block (formula, code sample) right after the summary, then ordinary prose - and the other order
    ("block_first", ["Summary line of the thing.", "", "    y = A * x + b", "", "where A is the matrix and", "b is the offset."]),
    ("block_last", ["Summary line of the thing.", "", "The model is linear:", "", "    y = A * x + b"]),
    # header prose that *mentions* the words the section scanners look for
    ("returns_prose", ["Summary line of the thing.", "", "Returns: nothing useful, the list itself is modified", "in place by the thing."]),
    ("parameters_prose", ["Summary line of the thing.", "", "Parameters of the thing are listed further down;", "the return value is described last."]),
    ("param_inline", ["Summary line of the thing.", "", "Pass the first value (see :param alpha: below) and", "then the second one."]),
]
SECTIONS = {
    "rest": [":param alpha: the alpha", ":type alpha: ```int```", "", ":param beta: the beta. Defaults to 5", ":type beta: ```int```", "", ":return: the result", ":rtype: ```str```"],
    "google": ["Args:", "  alpha (int): the alpha", "  beta (int): the beta. Defaults to 5", "", "Returns:", "  str: the result"],
    "numpydoc": ["Parameters", "----------", "alpha : int", "    the alpha", "beta : int", "    the beta. Defaults to 5", "", "Returns", "-------", "str", "    the result"],
}
SECTION_VARIANTS = ["full", "params_only", "return_only"]


def section_lines(style, variant="full"):
    """the generated section restricted to its parameter part or its return part"""
    lines = SECTIONS[style]
    if variant == "full":
        return lines
    cut = {"rest": ":return:", "google": "Returns:", "numpydoc": "Returns"}[style]
    i = next(k for k, l in enumerate(lines) if l.startswith(cut))
    part = lines[:i] if variant == "params_only" else lines[i:]
    while part and part[-1] == "":
        part = part[:-1]
    return part


FOOTERS = [
    ("none", []),
    ("notes", ["", "Notes about the usage", "that span two lines."]),
    ("doctest", ["", ">>> thing(1, 2)", "'3'"]),
    ("example", ["", "Example::", "", "    thing(1, beta=2)"]),
]
INDENTS = [0, 4, 8]
LEADING = [False, True, "blanks"]
SEPARATORS = [1, 2]
TRAILING = ["none", "nl", "nl_indent"]
STYLES = ["rest", "google", "numpydoc"]


def build(hk, style, fk, indent, leading, sep, trailing, variant="full", blanks="empty"):
    header = dict(HEADERS)[hk]
    footer = dict(FOOTERS)[fk]
    lines = list(header) + [""] * (sep - 1) + section_lines(style, variant) + footer
    ind = " " * indent
    # blank lines inside an indented docstring are either empty or carry the indentation (what editors and the emitters' separating tab leave)
    text = "\n".join((ind + l) if (l or blanks == "indented") else l for l in lines)
    if leading == "blanks":
        text = "   \n" + text  # trailing blanks after the opening quotes: a first line that is whitespace-only, not empty
    elif leading:
        text = "\n" + text
    if trailing == "nl":
        text += "\n"
    elif trailing == "nl_indent":
        text += "\n" + ind
    return text


def space(indents=INDENTS, separators=SEPARATORS):
    for variant, hk, style, fk, indent, leading, sep, trailing in itertools.product(SECTION_VARIANTS, [h[0] for h in HEADERS], STYLES, [f[0] for f in FOOTERS], indents, leading_values(), separators, TRAILING):
        yield dict(hk=hk, style=style, fk=fk, indent=indent, leading=leading, sep=sep, trailing=trailing, variant=variant)
        if indent and (fk != "none" or hk in ("two", "block_first")) and trailing == "none" and leading is not False:
            yield dict(hk=hk, style=style, fk=fk, indent=indent, leading=leading, sep=sep, trailing=trailing, variant=variant, blanks="indented")


def leading_values():
    return LEADING


def cases(tier, seed):
    if tier == "quick":
        yield from space()
    else:
        # also indentation that is not a multiple of four, a deeper level, and three blank lines between header and section
        yield from space(indents=[0, 2, 4, 8, 12], separators=[1, 2, 3])


def classify_split(doc, h, a, f, indent):
    """None when exact; 'reindent_exact' when the ONLY difference is that every line of the section part carries the docstring's own
    indentation a second time (the function's deliberate re-indentation of its first argument); otherwise how it is wrong"""
    joined = h + a + f
    if joined == doc:
        return None
    ind = " " * indent
    if indent:
        a2 = "\n".join(l[len(ind):] if l.startswith(ind) else l for l in a.split("\n"))
        if h + a2 + f == doc:
            return "reindent_exact"
    if "".join(joined.split()) == "".join(doc.split()):
        return "whitespace_differs"
    if len("".join(joined.split())) > len("".join(doc.split())):
        return "overlap_or_duplication"
    return "gap_or_loss"


def expected_bounds(key, doc):
    """(index where the section starts, index where it ends) at line granularity: the section starts at the beginning of its first line and
    ends after the newline of its last line (or at the end of the text)"""
    ind = " " * key["indent"]
    sec = section_lines(key["style"], key.get("variant", "full"))
    first = (ind + sec[0])
    last = (ind + sec[-1])
    start = doc.index(first)
    end = doc.rindex(last) + len(last)
    if end < len(doc) and doc[end] == "\n":
        end += 1
    return start, end


def prose_lines(key):
    return [l.strip() for l in dict(HEADERS)[key["hk"]] if l.strip()], [l.strip() for l in dict(FOOTERS)[key["fk"]] if l.strip()]


def in_order(lines, text):
    pos = 0
    flat = [l.strip() for l in text.split("\n")]
    for want in lines:
        try:
            pos = flat.index(want, pos) + 1
        except ValueError:
            # word-wrap may re-flow prose: fall back to a whitespace-insensitive search
            return want
    return None


def run(case):
    import cdd.docstring.emit
    import cdd.docstring.parse
    import cdd.function.emit
    import cdd.function.parse
    import cdd.shared.docstring_utils
    from cdd.shared.source_transformer import to_code

    doc = build(case["hk"], case["style"], case["fk"], case["indent"], case["leading"], case["sep"], case["trailing"], case.get("variant", "full"), case.get("blanks", "empty"))
    ctx = dict(check="prose", style=case["style"], indent=case["indent"], header=case["hk"], footer=case["fk"], section=case.get("variant", "full"))
    if case.get("blanks"):
        ctx["blank_lines"] = case["blanks"]
    viol, transitions = [], 0

    def v(clause, expected, observed, **extra):
        sig = dict(ctx)
        sig.update(clause=clause)
        sig.update(extra)
        viol.append(dict(sig=sig, expected=expected, observed=observed, detail=doc))

    # (1) exact split
    transitions += 1
    try:
        h, a, f = cdd.shared.docstring_utils.parse_docstring_into_header_args_footer(doc, doc)
        none_parts = ",".join(n for n, x in (("header", h), ("section", a), ("footer", f)) if x is None)
        h, a, f = h or "", a or "", f or ""  # a part that is reported as None holds no text
        kind = classify_split(doc, h, a, f, case["indent"])
        if kind is not None:
            v("split_not_exact", doc, h + a + f, kind=kind, leading=case["leading"], sep=case["sep"], trailing=case["trailing"], none_parts=none_parts or "none")
        # the parts must be what their names say.  Expected boundaries are known by construction; the observed ones are compared with them
        # exactly: signed number of non-blank lines between them and whether the observed boundary falls in the middle of a line
        ind = " " * case["indent"]
        a_doc = "\n".join(l[len(ind):] if l.startswith(ind) else l for l in (a or "").split("\n")) if case["indent"] else (a or "")
        if (h or "") + a_doc + (f or "") != doc:
            a_doc = a or ""  # not the deliberate re-indentation: already reported by split_not_exact; positions below are then approximate
        for which, idx, exp in (("header_end", len(h or ""), expected_bounds(case, doc)[0]), ("section_end", len(h or "") + len(a_doc), expected_bounds(case, doc)[1])):
            lo, hi = sorted((idx, exp))
            between = [l for l in doc[lo:hi].split("\n") if l.strip()]
            line_start = doc.rfind("\n", 0, idx) + 1
            mid_line = bool(doc[line_start:idx].strip()) and idx < len(doc) and doc[idx] != "\n"
            delta = len(between) * (1 if idx > exp else -1)
            if delta or mid_line:
                v("split_boundary", "%s at %d" % (which, exp), "at %d: %r" % (idx, doc[max(0, idx - 25): idx] + "|" + doc[idx: idx + 25]), boundary=which, delta_lines=delta, mid_line=mid_line,
                  sep=case["sep"], trailing=case["trailing"], leading=case["leading"])
    except Exception as e:
        v("split_raises", "three parts", "%s: %s" % (type(e).__name__, e), exc=type(e).__name__)
    header_lines, footer_lines = prose_lines(case)
    # (2)+(3) conversions through the docstring parser/emitter
    for target in STYLES:
        transitions += 2
        try:
            ir = cdd.docstring.parse.docstring(doc, parse_original_whitespace=True)
        except Exception as e:
            v("parse_raises", "an interface", "%s: %s" % (type(e).__name__, e), exc=type(e).__name__, via="docstring")
            break
        if target == STYLES[0]:
            for name, p in list(ir["params"].items()) + ([("return_type", ir["returns"]["return_type"])] if ir.get("returns") else []):
                for fld in ("typ", "default"):
                    val = p.get(fld)
                    if isinstance(val, str):
                        for line in header_lines + footer_lines:
                            if line and line in val:
                                v("prose_absorbed", "%s.%s free of prose" % (name, fld), repr(val)[:150], field=fld, entry="return" if name == "return_type" else "param",
                                  prose="header" if line in header_lines else "footer")
                                break
        try:
            out = cdd.docstring.emit.docstring(ir, docstring_format=target, word_wrap=False)
        except Exception as e:
            v("emit_raises", "a docstring", "%s: %s" % (type(e).__name__, e), exc=type(e).__name__, via="docstring", target=target)
            continue
        missing = in_order(header_lines, out)
        if missing is not None:
            v("header_line_lost", missing, out, via="docstring", target=target, same_style=target == case["style"])
    # through a function
    if case["indent"] == 4:
        src = 'def thing(alpha=1, beta=5):\n    """%s"""\n    return str(alpha + beta)\n' % doc
        try:
            fn = ast.parse(src).body[0]
        except SyntaxError:
            fn = None
        if fn is not None:
            for target in STYLES:
                transitions += 2
                try:
                    ir = cdd.function.parse.function(fn, parse_original_whitespace=True)
                    node = cdd.function.emit.function(ir, function_name="thing", function_type="static", docstring_format=target, word_wrap=False, emit_original_whitespace=True, type_annotations=False)
                    out = ast.get_docstring(ast.parse(to_code(node)).body[0], clean=False) or ""
                except Exception as e:
                    v("function_conversion_raises", "converted function", "%s: %s" % (type(e).__name__, str(e)[:100]), exc=type(e).__name__, via="function", target=target)
                    continue
                missing = in_order(header_lines, out)
                if missing is not None:
                    v("header_line_lost", missing, out, via="function", target=target, same_style=target == case["style"])
                # the same with the default flags (what doctrans does): parse the function, emit its docstring at the function's indent level
                transitions += 2
                try:
                    out = cdd.docstring.emit.docstring(cdd.function.parse.function(ast.parse(src).body[0]), docstring_format=target, indent_level=1, word_wrap=False)
                except Exception as e:
                    v("function_conversion_raises", "converted function", "%s: %s" % (type(e).__name__, str(e)[:100]), exc=type(e).__name__, via="function_default", target=target)
                    continue
                missing = in_order(header_lines, out)
                if missing is not None:
                    v("header_line_lost", missing, out, via="function_default", target=target, same_style=target == case["style"])
    # de-duplicate
    uniq, res = set(), []
    for x in viol:
        k = repr(sorted(x["sig"].items()))
        if k not in uniq:
            uniq.add(k)
            res.append(x)
    return dict(outcome="ok" if not res else "diff", transitions=transitions, violations=res)


def describe(tier):
    n = sum(1 for _ in space())
    return dict(
        rule="{n} docstrings = 3 headers (one line / two paragraphs / paragraph + bullet list) x 3 styles of a generated 2-parameter + return section x 4 footers "
        "(none, notes, doctest, indented example) x indentation 0/4/8 x leading newline (none, empty first line, whitespace-only first line) x separator (1 or 2 newlines) x 3 trailing-whitespace kinds, and - for indented docstrings with a footer or a multi-paragraph header - blank lines that carry the indentation; "
        "each through the splitter, and through parse -> emit into each of the 3 target styles (docstring and, at indentation 4, function route); "
        "a case = one docstring".format(n=n),
        bounds=dict(headers=[h[0] for h in HEADERS], footers=[f[0] for f in FOOTERS], indents=INDENTS, separators=SEPARATORS, trailing=TRAILING),
        exhaustive=True,
        assumptions=["split is parse_docstring_into_header_args_footer(doc, doc); mismatches are classified (re-indent only / whitespace only / overlap / gap)",
                     "conversions run with word_wrap=False so prose lines are compared verbatim (stripped)"],
    )
