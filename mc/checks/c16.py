"""
C16 - generated OpenAPI document is closed and matches the requested CRUD.

Exhaustive over model name x primary key kind x columns x CRUD subset x route prefix x app name, 1..3 models per document, through
(A) cdd.compound.openapi.emit.openapi directly and (B) the pipeline sqlalchemy.emit -> file -> gen_routes + upsert_routes -> openapi_bulk.
Oracle: json.dumps; every $ref resolves inside the document; referenced request bodies defined; every {param} of a path template declared;
operations per path exactly those requested; schema properties equal the model's columns.
"""
import itertools
import json
import os
import re
import shutil
import tempfile
from collections import OrderedDict
from copy import deepcopy

from mc import alphabets as A
from mc import formats as F

PROPERTY = "C16"

NAMES = ["Config", "User", "UserProfile", "user_profile", "config_tbl", "HTTPLog"]
CRUDS = ["C", "R", "D", "CR", "CD", "RD", "CRD"]
ROUTES = ["/api/{n}", "/v1/x/{n}"]
APPS = ["rest_api", "app"]
PKS = ["explicit", "by_name", "id"]
# the same subsets with their letters in every other order (gen_routes documents every permutation as a legal value)
CRUD_ORDERS = ["RC", "DC", "DR", "CDR", "RCD", "RDC", "DCR", "DRC"]
COLS = [
    ("count", OrderedDict((("doc", "the count"), ("typ", "int"), ("default", 5)))),
    ("label", OrderedDict((("doc", "the label"), ("typ", "Optional[str]")))),
    ("ratio", OrderedDict((("doc", "the ratio"), ("typ", "float")))),
]


def model_ir(name, pk, ncols):
    params = []
    if pk == "explicit":
        params.append(("code", OrderedDict((("doc", "[PK] the code"), ("typ", "str")))))
        pk_name = "code"
    elif pk == "by_name":
        params.append(("dataset_name", OrderedDict((("doc", "the dataset name"), ("typ", "str")))))
        pk_name = "dataset_name"
    else:
        pk_name = "id"
    params += [(n, deepcopy(p)) for n, p in COLS[:ncols]]
    return A.mk_ir(params, None, "A %s model." % name, name=name), pk_name


def slug(name):
    return name.lower()


def cases(tier, seed):
    # (A) direct, single model
    for name, pk, ncols, crud, route, in itertools.product(NAMES, PKS, (1, 3), CRUDS, ROUTES):
        yield dict(kind="direct", models=[dict(name=name, pk=pk, ncols=ncols, crud=crud, route=route.format(n=slug(name)))])
    # (A) direct, 2 and 3 models per document: every ordered tuple of CRUD subsets over fixed distinct names
    for cruds in itertools.product(CRUDS, repeat=2):
        yield dict(kind="direct", models=[dict(name=n, pk=p, ncols=2, crud=c, route="/api/" + slug(n)) for n, p, c in zip(("Config", "User"), ("explicit", "id"), cruds)])
    for cruds in itertools.product(CRUDS, repeat=3) if tier == "thorough" else itertools.product(("C", "RD", "CRD"), repeat=3):
        yield dict(kind="direct", models=[dict(name=n, pk=p, ncols=1, crud=c, route="/api/" + slug(n)) for n, p, c in zip(("Config", "User", "HTTPLog"), ("explicit", "id", "by_name"), cruds)])
    if tier == "thorough":
        # direct: every pair of names x every pair of primary-key kinds x every pair of CRUD subsets
        for (n1, n2), pks, cruds in itertools.product(itertools.permutations(NAMES[:4], 2), itertools.product(PKS, repeat=2), itertools.product(CRUDS, repeat=2)):
            yield dict(kind="direct", models=[dict(name=n, pk=p, ncols=1, crud=c, route="/api/" + slug(n)) for n, p, c in zip((n1, n2), pks, cruds)])
        # pipeline: every pair of CRUD subsets x separate/shared routes file x every pair of primary-key kinds; the two-application documents over all CRUD pairs
        for cruds, same_file, pks in itertools.product(itertools.product(CRUDS, repeat=2), (False, True), itertools.product(PKS, repeat=2)):
            yield dict(kind="pipeline", app="rest_api", same_file=same_file, models=[dict(name=n, pk=p, ncols=1, crud=c, route="/api/" + slug(n)) for n, p, c in zip(("Config", "User"), pks, cruds)])
        for cruds, same_file, pks in itertools.product(itertools.product(CRUDS, repeat=2), (True, False), (("explicit", "by_name"), ("id", "id"), ("by_name", "explicit"))):
            yield dict(kind="pipeline", app="rest_api", same_file=same_file, two_apps=True,
                       models=[dict(name=n, pk=p, ncols=1, crud=c, route="/api/" + slug(n), app=a) for n, p, c, a in zip(("Config", "User"), pks, cruds, ("rest_api", "admin_api"))])
    # (B) pipeline
    for name, pk, crud, route, app in itertools.product(NAMES, PKS, CRUDS, ROUTES, APPS):
        yield dict(kind="pipeline", app=app, models=[dict(name=name, pk=pk, ncols=2, crud=crud, route=route.format(n=slug(name)))])
    for name, pk, crud, app in itertools.product(NAMES[:2], PKS, CRUD_ORDERS, APPS):
        yield dict(kind="pipeline", app=app, models=[dict(name=name, pk=pk, ncols=2, crud=crud, route="/api/" + slug(name))])
    for cruds, same_file in itertools.product(itertools.product(CRUD_ORDERS, repeat=2), (False, True)):
        yield dict(kind="pipeline", app="rest_api", same_file=same_file, models=[dict(name=n, pk=p, ncols=1, crud=c, route="/api/" + slug(n)) for n, p, c in zip(("Config", "User"), ("explicit", "id"), cruds)])
    # two models, separate or shared routes file, every pair of primary-key kinds (equal kinds give equal primary-key *names*)
    for cruds, same_file, pks in itertools.product(itertools.product(("C", "RD", "CRD", "R"), repeat=2), (False, True), itertools.product(PKS, repeat=2)):
        yield dict(kind="pipeline", app="rest_api", same_file=same_file, models=[dict(name=n, pk=p, ncols=1, crud=c, route="/api/" + slug(n)) for n, p, c in zip(("Config", "User"), pks, cruds)])
    # two models that belong to two *different* applications, routes in one shared file or in two: one document per application, each must hold
    # exactly its own application's operations
    for cruds, same_file in itertools.product(itertools.product(("C", "RD", "CRD", "R", "CD"), repeat=2), (True, False)):
        yield dict(kind="pipeline", app="rest_api", same_file=same_file, two_apps=True,
                   models=[dict(name=n, pk=p, ncols=1, crud=c, route="/api/" + slug(n), app=a) for n, p, c, a in zip(("Config", "User"), ("explicit", "by_name"), cruds, ("rest_api", "admin_api"))])
    # three models in one routes file
    for cruds in itertools.product(("C", "RD", "CRD"), repeat=3):
        yield dict(kind="pipeline", app="rest_api", same_file=True, models=[dict(name=n, pk=p, ncols=1, crud=c, route="/api/" + slug(n)) for n, p, c in zip(("Config", "User", "Invoice"), ("explicit", "explicit", "by_name"), cruds)])


def refs(o, path=""):
    if isinstance(o, dict):
        for k, v in o.items():
            if k == "$ref" and isinstance(v, str):
                yield path, v
            else:
                yield from refs(v, path + "/" + str(k))
    elif isinstance(o, list):
        for i, v in enumerate(o):
            yield from refs(v, path + "/" + str(i))


def resolve(doc, ref):
    if not ref.startswith("#/"):
        return False
    cur = doc
    for part in ref[2:].split("/"):
        part = part.replace("~1", "/").replace("~0", "~")
        if isinstance(cur, dict) and part in cur:
            cur = cur[part]
        else:
            return False
    return True


def name_class(name):
    return "identity_under_title" if name.replace("_tbl", "").title() == name else "changed_by_title"


def check_doc(doc, models, v):
    try:
        text = json.dumps(doc)
        doc = json.loads(text)
    except Exception as e:
        v("not_serialisable", "json.dumps works", "%s: %s" % (type(e).__name__, e))
        doc = json.loads(json.dumps(doc, default=repr))  # keep checking the other clauses on a stringified copy
    for where, ref in refs(doc):
        if not resolve(doc, ref):
            v("dangling_ref", "resolves inside the document", "%s at %s" % (ref, where), ref_kind=ref.split("/")[2] if ref.count("/") >= 3 else "?")
    paths = doc.get("paths", {})
    expected_paths = {}
    for m in models:
        coll = m["route"]
        item = "%s/{%s}" % (m["route"], m["pk_name"])
        if "C" in m["crud"]:
            expected_paths.setdefault(coll, set()).add("post")
        if "R" in m["crud"]:
            expected_paths.setdefault(item, set()).add("get")
        if "D" in m["crud"]:
            expected_paths.setdefault(item, set()).add("delete")
    http = {"get", "put", "post", "delete", "options", "head", "patch", "trace"}
    for p, item in paths.items():
        ops = {k for k in item if k in http}
        want = expected_paths.get(p, set())
        if ops != want:
            v("operations_differ", "%s: %s" % (p, sorted(want)), "%s: %s" % (p, sorted(ops)), extra_ops=",".join(sorted(ops - want)) or "none", missing_ops=",".join(sorted(want - ops)) or "none")
        declared = {q.get("name") for q in item.get("parameters", []) if isinstance(q, dict)}
        for op in ops:
            declared_op = declared | {q.get("name") for q in item[op].get("parameters", []) if isinstance(q, dict)}
            for tp in re.findall(r"\{([^}]+)\}", p):
                if tp not in declared_op:
                    v("path_parameter_undeclared", "{%s} declared for %s %s" % (tp, op, p), "declared: %s" % sorted(declared_op), op=op)
    for p, want in expected_paths.items():
        if p not in paths and want:
            v("operations_differ", "%s: %s" % (p, sorted(want)), "path absent", extra_ops="none", missing_ops=",".join(sorted(want)))
    schemas = doc.get("components", {}).get("schemas", {})

    def schema_key(ref_holder):
        # follow a requestBody / response object to the schema it names (through components/requestBodies when it is a reference)
        if not isinstance(ref_holder, dict):
            return None
        r = ref_holder.get("$ref")
        if isinstance(r, str) and "/requestBodies/" in r:
            ref_holder = doc.get("components", {}).get("requestBodies", {}).get(r.rsplit("/", 1)[1], {})
        sch = (((ref_holder.get("content") or {}).get("application/json") or {}).get("schema") or {}) if isinstance(ref_holder, dict) else {}
        r = sch.get("$ref") if isinstance(sch, dict) else None
        return r.rsplit("/", 1)[1] if isinstance(r, str) and "/components/schemas/" in r else None

    # "describe that same model": what a model's operations take and answer with (request body, success responses) is that model's schema
    for m in models:
        item = "%s/{%s}" % (m["route"], m["pk_name"])
        for path, op in ((m["route"], "post"), (item, "get")):
            o = (paths.get(path) or {}).get(op)
            if not isinstance(o, dict):
                continue
            named = []
            if op == "post" and "requestBody" in o:
                named.append(("requestBody", schema_key(o["requestBody"])))
            for code, resp in (o.get("responses") or {}).items():
                if str(code).startswith("2") and isinstance(resp, dict) and resp.get("content"):
                    named.append(("response", schema_key(resp)))
            for where, key in named:
                sch = schemas.get(key) if key else None
                if key is None or not isinstance(sch, dict) or set(sch.get("properties", {})) != set(m["columns"]):
                    v("operation_describes_another_model", "%s %s %s: the schema of %s %s" % (op, path, where, m["name"], sorted(m["columns"])),
                      "%s %s" % (key, sorted(sch.get("properties", {})) if isinstance(sch, dict) else "undefined"), op=op, where=where, names_error_schema=key == "ServerError", schema_defined=isinstance(sch, dict))
    for m in models:
        # the schema describing the model: the one the model's operations refer to
        referred = {r.rsplit("/", 1)[1] for w, r in refs(paths) if "/components/schemas/" in r and r.rsplit("/", 1)[1] != "ServerError" and (m["route"] + "/" in w + "/" or ("~1".join(m["route"].split("/")) in w))}
        for key in referred:
            sch = schemas.get(key)
            if isinstance(sch, dict) and set(sch.get("properties", {})) != set(m["columns"]):
                v("schema_properties_differ", sorted(m["columns"]), sorted(sch.get("properties", {})))


def run(case):
    import cdd.compound.openapi.emit
    import cdd.json_schema.emit
    from cdd.compound.openapi.utils.emit_openapi_utils import NameModelRouteIdCrud

    viol = []
    models = []
    for m in case["models"]:
        ir, pk_name = model_ir(m["name"], m["pk"], m["ncols"])
        mm = dict(m, pk_name=pk_name, ir=ir)
        models.append(mm)
    ctx = dict(check="openapi", via=case["kind"], n_models=len(models), same_routes_file=bool(case.get("same_file")))
    if case.get("two_apps"):
        ctx["two_apps"] = True

    def mk_v(m):
        def v(clause, expected, observed, **extra):
            sig = dict(ctx)
            sig.update(clause=clause, cruds=",".join(x["crud"] for x in models), name_class=",".join(sorted({name_class(x["name"]) for x in models})), pk=",".join(x["pk"] for x in models), pk_has_id=any(x["pk"] == "id" for x in models))
            sig.update(extra)
            viol.append(dict(sig=sig, expected=expected, observed=observed))

        return v

    v = mk_v(None)
    transitions = 0
    if case["kind"] == "direct":
        tuples = []
        for m in models:
            schema = cdd.json_schema.emit.json_schema(deepcopy(m["ir"]), "https://example.com/%s.json" % m["name"])
            m["columns"] = list(m["ir"]["params"])
            tuples.append(NameModelRouteIdCrud(name=m["name"], model=schema, route=m["route"], id=m["pk_name"], crud=m["crud"]))
        transitions += 1
        try:
            doc = cdd.compound.openapi.emit.openapi(tuples)
        except Exception as e:
            v("emit_raises", "a document", "%s: %s" % (type(e).__name__, e), exc=type(e).__name__)
            return dict(outcome="raises", transitions=transitions, violations=viol)
        check_doc(doc, models, v)
    else:
        import cdd.compound.openapi.gen_openapi
        import cdd.compound.openapi.gen_routes
        import cdd.sqlalchemy.emit

        d = tempfile.mkdtemp(prefix="c16_")
        try:
            model_paths, routes_paths = [], []
            for i, m in enumerate(models):
                node = cdd.sqlalchemy.emit.sqlalchemy(deepcopy(m["ir"]), class_name=m["name"], emit_repr=False)
                mp = os.path.join(d, "models_%d.py" % i)
                with open(mp, "wt") as f:
                    f.write("from sqlalchemy import *\n\n\n" + F.render(node) + "\n")
                rp = os.path.join(d, "routes_%d.py" % (0 if case.get("same_file") else i))
                transitions += 2
                routes, pk = cdd.compound.openapi.gen_routes.gen_routes(m.get("app", case["app"]), mp, m["name"], m["crud"], m["route"])
                cdd.compound.openapi.gen_routes.upsert_routes(m.get("app", case["app"]), routes, rp, m["route"], pk)
                m["pk_name"] = pk
                import cdd.sqlalchemy.parse

                m["columns"] = list(cdd.sqlalchemy.parse.sqlalchemy(node)["params"])
                model_paths.append(mp)
                if rp not in routes_paths:
                    routes_paths.append(rp)
            docs = []
            for app in sorted({m.get("app", case["app"]) for m in models}):
                transitions += 1
                docs.append((app, cdd.compound.openapi.gen_openapi.openapi_bulk(app, model_paths, routes_paths)))
            doc = docs[0][1]
        except Exception as e:
            v("pipeline_raises", "a document", "%s: %s" % (type(e).__name__, str(e)[:150]), exc=type(e).__name__)
            return dict(outcome="raises", transitions=transitions, violations=viol)
        finally:
            shutil.rmtree(d, ignore_errors=True)
        for app, doc_ in docs:
            check_doc(doc_, [m for m in models if m.get("app", case["app"]) == app], (lambda clause, expected, observed, _app=app, **extra: v(clause, expected, observed, **dict(extra, doc_of=("first" if _app == docs[0][0] else "second")))) if len(docs) > 1 else v)
    uniq, res = set(), []
    for x in viol:
        k = repr(sorted(x["sig"].items()))
        if k not in uniq:
            uniq.add(k)
            x["detail"] = json.dumps(doc, default=repr)[:3000]
            res.append(x)
    return dict(outcome="ok" if not res else "diff", transitions=transitions, violations=res)


def describe(tier):
    return dict(
        rule="models: 6 names (single/multi-word, with _tbl, acronym) x primary key {explicit [PK], inferred by name, inferred id} x 1-3 further columns x all 7 "
        "non-empty subsets of {C,R,D} x 2 route prefixes (x 2 app names in the pipeline); documents with 1, 2 (all 49 CRUD pairs) and 3 models; two models of two different "
        "applications in one shared (or two) routes file(s), one document per application; through "
        "openapi.emit.openapi directly and through sqlalchemy.emit -> gen_routes -> upsert_routes -> openapi_bulk; a case = one document",
        bounds=dict(names=NAMES, cruds=CRUDS, crud_letter_orders=CRUD_ORDERS, routes=ROUTES, apps=APPS, pks=PKS),
        exhaustive=True,
        assumptions=["expected operations: C -> POST on the collection path, R -> GET and D -> DELETE on the item path '<route>/{<pk>}'", "SQLAlchemy models are generated by cdd itself; nothing is executed"],
    )
