"""
C17 - analysing source never executes it or touches anything but the output.

Exhaustive product entry point x slot x payload (adversarial expressions/statements placed in docstring prose, default prose, type
strings, annotations, default expressions, decorators, module-level statements), plus all descriptions of <= 4 tokens over a
whitelist-probing alphabet through the docstring parser.  Oracle on the audit log of every call (sys.addaudithook): no import of the
sentinel module, no process/socket event, no write-mode open outside the named outputs, no marker file, and every executed code object
that was compiled from a string containing input text only loads names/attributes/subscripts (no calls, imports, definitions,
comprehensions, dunder access).  --input-eval and gen --prepend are run as positive controls that the monitor sees execution.
"""
import ast
import io
import itertools
import json
import os
import shutil
import sys
import tempfile
from collections import OrderedDict
from contextlib import redirect_stderr, redirect_stdout
from copy import deepcopy

from mc import effects

PROPERTY = "C17"
STATE_IS_CASE = True

SENT = "c17sentinelmod"
PAYLOADS = OrderedDict(
    (
        ("import_call", "__import__('%s')" % SENT),
        ("open_write", "open(c17mark, 'w').close()"),
        ("exec_str", "exec('import %s')" % SENT),
        ("comprehension", "[__import__('%s') for c17i in (1,)]" % SENT),
        ("lambda_call", "(lambda: __import__('%s'))()" % SENT),
        ("fstring", "f\"{__import__('%s')}\"" % SENT),
        ("walrus", "(c17y := __import__('%s'))" % SENT),
        ("dunder_chain", "c17x.__class__.__base__.__subclasses__()"),
        ("subscript_call", "c17x[0]()"),
        ("attr_call", "%s.touch()" % SENT),
        ("name_exit", "exit"),
        ("dotted_os_system", "os.system"),
        ("dotted_sentinel", "%s.touch" % SENT),
        ("getattr_call", "getattr(__import__('%s'), 'touch')()" % SENT),
    )
)
NAME_ONLY = {"name_exit", "dotted_os_system", "dotted_sentinel"}
QUOTES = [("raw", "%s"), ("tick", "`%s`"), ("ticks3", "```%s```")]

DOC_SLOTS = ["header", "pdoc", "ptype", "pdefault", "rdoc", "rtype"]
CODE_SLOTS = ["annotation", "default_expr", "default_expr_unannotated", "decorator", "module_stmt", "class_attr_value"]
# expression contexts a payload is embedded in (code slots): constant-folding / type-inference helpers look at the *shape* of a default
CONTEXTS = OrderedDict(
    (
        ("plain", "{p}"),
        ("unary", "-({p})"),
        ("unary_nested_binop", "-(60 * (59 + {p}))"),
        ("double_unary", "-(-{p})"),
        ("not", "not {p}"),
        ("binop", "{p} + 1"),
        ("list", "[{p}]"),
        ("dict", "{{'k': {p}}}"),
        ("tuple", "({p}, 2)"),
        ("call_arg", "int({p})"),
        ("ifexp", "1 if {p} else 2"),
    )
)

DOC_TEMPLATES = {
    "rest": "{header}\n\n:param a: {pdoc}\n:type a: ```{ptype}```\n\n:param b: the b. Defaults to {pdefault}\n\n:return: {rdoc}\n:rtype: ```{rtype}```\n",
    "google": "{header}\n\nArgs:\n  a ({ptype}): {pdoc}\n  b: the b. Defaults to {pdefault}\n\nReturns:\n  {rtype}: {rdoc}\n",
    "numpydoc": "{header}\n\nParameters\n----------\na : {ptype}\n    {pdoc}\nb : int\n    the b. Defaults to {pdefault}\n\nReturns\n-------\n{rtype}\n    {rdoc}\n",
}
BENIGN = dict(header="Summary.", pdoc="the a", ptype="int", pdefault="5", rdoc="the result", rtype="int")

DOC_CONTEXTS = OrderedDict(
    (
        ("or_none", "{p} or None."),
        ("list_of", "List of {p}"),
        ("either_or", "Either {p} or {p}, whichever comes first."),
        ("second_sentence", "the a. {p} or `None`. More text."),
        ("of_the", "An instance of {p} or a str"),
    )
)
LIVE_ENTRIES = ["function_live", "function_live_infer", "class_live", "class_live_merge"]
LIVE_SLOTS = ["postponed_annotation", "quoted_annotation", "postponed_return", "quoted_return"]
DESER_ENTRIES = ["argparse_parse", "argparse_parse_infer", "gen_file_argparse", "sync_truth_argparse"]
_PICKLE = ("c%s\ntouch\n(tR." % SENT).encode()  # protocol 0: GLOBAL sentinel.touch, empty tuple, REDUCE - unpickling imports the sentinel and calls touch()
DESER = OrderedDict(
    (
        ("pickle_loads", ("pickle.loads", repr(_PICKLE))),
        ("bare_loads_bytes", ("loads", repr(_PICKLE))),
        ("marshal_loads", ("marshal.loads", repr(_PICKLE))),
        ("eval_str", ("eval", repr("__import__('%s').touch()" % SENT))),
        ("exec_str", ("exec", repr("import %s" % SENT))),
        ("literal_eval_str", ("ast.literal_eval", repr("__import__('%s')" % SENT))),
        ("import_module_str", ("importlib.import_module", repr(SENT))),
        ("dunder_import_str", ("__import__", repr(SENT))),
        ("yaml_load_str", ("yaml.unsafe_load", repr("!!python/object/apply:%s.touch []" % SENT))),
    )
)
DOC_ENTRIES = ["docstring_parse", "docstring_parse_infer", "function_parse", "function_parse_infer", "class_parse", "class_parse_infer", "doctrans_file", "sync_files", "gen_file"]
CODE_ENTRIES = ["function_parse", "function_parse_infer", "class_parse_infer", "pydantic_parse", "argparse_parse", "sqlalchemy_parse", "doctrans_file", "sync_files", "gen_file", "sync_properties"]
IR_ENTRIES = ["emit_all"]

TOKENS = ["`", "(", ")", ".", ",", ";", "'", "[", "]", " or ", " of ", "List", "None", "__import__", SENT]

# route docstrings carry a YAML (or JSON) block that the bottle/openapi parsers load: YAML's python-specific tags are the way such a block names code
YAML_PAYLOADS = OrderedDict(
    (
        ("apply_mkdir", "!!python/object/apply:os.mkdir [c17mark]"),
        ("apply_sentinel", "!!python/object/apply:%s.touch []" % SENT),
        ("new_sentinel", "!!python/object/new:%s.touch []" % SENT),
        ("module_tag", "!!python/module:%s" % SENT),
        ("name_tag", "!!python/name:%s.touch" % SENT),
        ("object_tag", "!!python/object:%s.touch {}" % SENT),
        ("tuple_tag", "!!python/tuple [1, 2]"),
        ("py_import_call", "__import__('%s')" % SENT),
        ("py_exec_str", "exec('import %s')" % SENT),
    )
)
YAML_SLOTS = ["response_description", "top_level_value", "nested_key", "whole_block", "json_block_value"]
ROUTE_ENTRIES = ["bottle_parse", "openapi_parse", "openapi_bulk_files", "fastapi_parse"]
ROUTE_TPL = '''@rest_api.get("/api/config/:dataset_name")
def read(dataset_name):
    """
    Find one Config

    ```yml
{block}
    ```

    :param dataset_name: Primary key
    """
    return dataset_name
'''
MODEL_SRC = '''class Config(Base):
    """Config table"""

    __tablename__ = "config"

    dataset_name = Column(String, primary_key=True)
'''


def yaml_block(slot, p):
    if slot == "response_description":
        return "responses:\n  '200':\n    description: %s\n  '404':\n    description: Config not found" % p
    if slot == "top_level_value":
        return "summary: %s\nresponses:\n  '404':\n    description: Config not found" % p
    if slot == "nested_key":
        return "responses:\n  ? %s\n  : description: Config not found" % p
    if slot == "whole_block":
        return p
    return '{"responses": {"404": {"description": %s}}}' % __import__("json").dumps(p)


def cases(tier, seed):
    for entry, slot, (pk, p), (qk, q), style in itertools.product(DOC_ENTRIES, DOC_SLOTS, PAYLOADS.items(), QUOTES, ("rest", "google", "numpydoc")):
        if style != "rest" and (entry not in ("docstring_parse", "docstring_parse_infer", "function_parse_infer") or qk == "ticks3"):
            continue
        yield dict(kind="doc", entry=entry, slot=slot, payload=pk, quote=qk, style=style)
    # prose positions in which the docstring reader guesses a type from the description ("X or None", "List of X", second sentence)
    for entry, slot, pk, qk, style, dk in itertools.product(("docstring_parse", "docstring_parse_infer", "function_parse_infer", "doctrans_file"), ("pdoc", "rdoc"), PAYLOADS, ("raw", "tick"), ("rest", "google", "numpydoc"), DOC_CONTEXTS):
        if entry == "doctrans_file" and style != "rest":
            continue
        yield dict(kind="doc", entry=entry, slot=slot, payload=pk, quote=qk, style=style, doc_context=dk)
    # live objects (functions and classes imported from a scratch module) whose annotations are stored as text: postponed evaluation, or quoted by hand
    for entry, slot, pk in itertools.product(LIVE_ENTRIES, LIVE_SLOTS, PAYLOADS):
        yield dict(kind="live", entry=entry, slot=slot, payload=pk)
    # an argparse argument whose `type=` names a deserialiser / evaluator and whose `default=` literal is something that callable would act on
    for entry, dk in itertools.product(DESER_ENTRIES, DESER):
        yield dict(kind="deser", entry=entry, slot="argparse_type_and_default", payload=dk)
    for entry, slot, (pk, p) in itertools.product(CODE_ENTRIES, CODE_SLOTS, PAYLOADS.items()):
        for ck in CONTEXTS if slot in ("default_expr", "default_expr_unannotated", "class_attr_value") else ("plain",):
            yield dict(kind="code", entry=entry, slot=slot, payload=pk, context=ck)
    for slot, (pk, p), (qk, q) in itertools.product(("doc", "default", "typ"), PAYLOADS.items(), QUOTES):
        yield dict(kind="ir", entry="emit_all", slot=slot, payload=pk, quote=qk)
    for (pk, p), (qk, q) in itertools.product(PAYLOADS.items(), QUOTES[:2]):
        yield dict(kind="json_schema", entry="json_schema_parse", slot="description_default", payload=pk, quote=qk)
    for entry, slot, pk in itertools.product(ROUTE_ENTRIES, YAML_SLOTS, YAML_PAYLOADS):
        if entry == "fastapi_parse" and slot != "response_description":
            continue
        yield dict(kind="route", entry=entry, slot=slot, payload=pk)
    # gen --imports-from-file: the file's import statements are copied into the output, never acted upon
    for name, _line in IMPORT_LINES:
        for prepend in (False, True):
            yield dict(kind="imports_file", entry="gen_imports_from_file", slot="import_statement", payload=name, prepend=prepend)
    yield dict(kind="control", entry="sync_properties_input_eval")
    yield dict(kind="control", entry="gen_prepend")
    # bounded-exhaustive probe of the character whitelist in front of the type-name eval
    n = 3 if tier == "quick" else 4
    for i in range(len(TOKENS)):
        yield dict(kind="whitelist_block", first=i, maxlen=n)


_SCRATCH = {}


def worker_init(tier, seed):
    d = tempfile.mkdtemp(prefix="c17_sent_")
    with open(os.path.join(d, SENT + ".py"), "wt") as f:
        f.write("import os\nopen(os.path.join(os.path.dirname(__file__), 'IMPORTED'), 'w').close()\ndef touch():\n    open(os.path.join(os.path.dirname(__file__), 'TOUCHED'), 'w').close()\n")
    sys.path.insert(0, d)
    _SCRATCH["sent_dir"] = d
    effects.install()
    import atexit

    atexit.register(shutil.rmtree, d, True)
    # warm every lazy import of cdd/black so that the library's own first-use imports are not attributed to a case
    import black  # noqa
    import cdd.__main__  # noqa
    import cdd.compound.doctrans  # noqa
    import cdd.compound.gen  # noqa
    import cdd.compound.sync_properties  # noqa
    import cdd.shared.conformance  # noqa
    import cdd.sqlalchemy.parse  # noqa
    import cdd.pydantic.parse  # noqa
    import cdd.json_schema.parse  # noqa
    import cdd.compound.openapi.gen_openapi  # noqa
    import cdd.routes.parse.bottle  # noqa
    import cdd.routes.parse.fastapi  # noqa

    try:  # one benign route through the YAML loader, so that its first-use imports are not attributed to a case
        with redirect_stdout(io.StringIO()), redirect_stderr(io.StringIO()):
            cdd.routes.parse.bottle.bottle(ast.parse(ROUTE_TPL.format(block="    responses:\n      '404':\n        description: Config not found")).body[0])
    except Exception:
        pass


def _main(argv):
    import cdd.__main__

    with redirect_stdout(io.StringIO()), redirect_stderr(io.StringIO()):
        cdd.__main__.main(argv)


def build_doc(style, slot, text):
    vals = dict(BENIGN)
    vals[slot] = text
    return DOC_TEMPLATES[style].format(**vals)


def module_with_doc(doc):
    ind = "\n".join(("    " + l) if l else l for l in doc.split("\n"))
    cdoc = doc.replace(":param ", ":cvar ")
    cind = "\n".join(("    " + l) if l else l for l in cdoc.split("\n"))
    return 'def f(a, b=5):\n    """\n%s\n    """\n    return a\n\n\nclass ConfigClass(object):\n    """\n%s\n    """\n\n    a: int = 1\n    b: int = 5\n' % (ind, cind)


def module_with_code(slot, p):
    ann = p if slot == "annotation" else "int"
    dflt = p if slot in ("default_expr", "default_expr_unannotated") else "1"
    if slot == "default_expr_unannotated":
        return (
            'def f(a=%s, b=5):\n    """\n    Summary.\n\n    :param a: the a\n\n    :param b: the b\n    """\n    return a\n\n\n' % dflt
            + 'class ConfigClass(object):\n    """\n    Summary.\n\n    :cvar a: the a\n    :cvar c: the c\n    """\n\n    a = %s\n    c = 1\n\n\n' % dflt
            + 'def set_cli_args(argument_parser):\n    """\n    Set CLI arguments\n\n    :param argument_parser: argument parser\n    :type argument_parser: ```ArgumentParser```\n\n'
            '    :return: argument_parser\n    :rtype: ```ArgumentParser```\n    """\n    argument_parser.description = "Summary."\n'
            "    argument_parser.add_argument('--a', help='the a', default=%s)\n    return argument_parser\n\n\n" % dflt
            + "class Tbl(Base):\n    __tablename__ = 'tbl'\n    a = Column(Integer, default=%s, doc='the a', primary_key=True)\n" % dflt
        )
    deco = "@%s\n" % p if slot == "decorator" else ""
    stmt = "%s\n\n\n" % p if slot == "module_stmt" else ""
    cval = p if slot == "class_attr_value" else "1"
    return (
        stmt
        + deco
        + 'def f(a: %s = %s, b=5):\n    """\n    Summary.\n\n    :param a: the a\n\n    :param b: the b\n    """\n    return a\n\n\n' % (ann, dflt)
        + 'class ConfigClass(object):\n    """\n    Summary.\n\n    :cvar a: the a\n    :cvar c: the c\n    """\n\n    a: %s = %s\n    c = %s\n\n\n' % (ann, dflt, cval)
        + 'def set_cli_args(argument_parser):\n    """\n    Set CLI arguments\n\n    :param argument_parser: argument parser\n    :type argument_parser: ```ArgumentParser```\n\n'
        '    :return: argument_parser\n    :rtype: ```ArgumentParser```\n    """\n    argument_parser.description = "Summary."\n'
        "    argument_parser.add_argument('--a', type=%s, help='the a', default=%s)\n    return argument_parser\n\n\n" % ("int" if slot != "annotation" else p, dflt)
        + "class Tbl(Base):\n    __tablename__ = 'tbl'\n    a = Column(Integer, default=%s, doc='the a', primary_key=True)\n" % dflt
    )


def run_entry(entry, src, d, is_code):
    """prepare one entry point on module text `src` (input files are written here, outside the recording);
    returns (thunk running the real code, set of paths it may legitimately write)"""
    import cdd.argparse_function.parse
    import cdd.class_.parse
    import cdd.compound.sync_properties
    import cdd.docstring.parse
    import cdd.function.parse
    import cdd.pydantic.parse
    import cdd.sqlalchemy.parse

    allowed = set()
    if entry in ("docstring_parse", "docstring_parse_infer"):
        return (lambda: cdd.docstring.parse.docstring(src, infer_type=entry.endswith("infer"))), allowed
    mod = ast.parse(src)
    fn = next(n for n in mod.body if isinstance(n, ast.FunctionDef) and n.name == "f")
    cls = next(n for n in mod.body if isinstance(n, ast.ClassDef) and n.name == "ConfigClass")
    if entry in ("function_parse", "function_parse_infer"):
        thunk = lambda: cdd.function.parse.function(fn, infer_type=entry.endswith("infer"))  # noqa
    elif entry in ("class_parse", "class_parse_infer"):
        thunk = lambda: cdd.class_.parse.class_(cls, infer_type=entry.endswith("infer"))  # noqa
    elif entry == "pydantic_parse":
        thunk = lambda: cdd.pydantic.parse.pydantic(cls)  # noqa
    elif entry == "argparse_parse":
        node = next(n for n in mod.body if isinstance(n, ast.FunctionDef) and n.name == "set_cli_args")
        thunk = lambda: cdd.argparse_function.parse.argparse_ast(node)  # noqa
    elif entry == "sqlalchemy_parse":
        node = next(n for n in mod.body if isinstance(n, ast.ClassDef) and n.name == "Tbl")
        thunk = lambda: cdd.sqlalchemy.parse.sqlalchemy(node)  # noqa
    elif entry == "doctrans_file":
        p = os.path.join(d, "dt.py")
        with open(p, "wt") as f:
            f.write(src)
        allowed.add(p)
        thunk = lambda: _main(["doctrans", "--filename", p, "--format", "google", "--type-annotations"])  # noqa
    elif entry == "sync_files":
        c, f_, a = (os.path.join(d, n) for n in ("s_class.py", "s_fn.py", "s_cli.py"))
        for p in (c, f_, a):
            with open(p, "wt") as fh:
                fh.write(src)
            allowed.add(p)
        thunk = lambda: _main(["sync", "--class", c, "--class-name", "ConfigClass", "--function", f_, "--function-name", "f", "--argparse-function", a, "--argparse-function-name", "set_cli_args", "--truth", "class"])  # noqa
    elif entry == "gen_file":
        p = os.path.join(d, "gen_in.py")
        with open(p, "wt") as f:
            f.write(src)
        out = os.path.join(d, "gen_out.py")
        allowed.add(out)
        thunk = lambda: _main(["gen", "--name-tpl", "{name}Gen", "--input-mapping", p, "--parse", "class", "--emit", "sqlalchemy_table", "-o", out])  # noqa
    elif entry == "sync_properties":
        ip, op = os.path.join(d, "sp_in.py"), os.path.join(d, "sp_out.py")
        with open(ip, "wt") as f:
            f.write(src)
        with open(op, "wt") as f:
            f.write("class Out(object):\n    x: int = 1\n")
        allowed.add(op)
        thunk = lambda: cdd.compound.sync_properties.sync_properties(input_eval=False, input_filename=ip, input_params=["ConfigClass.a"], output_filename=op, output_params=["Out.x"])  # noqa
    else:
        raise ValueError(entry)
    return thunk, allowed


def _code_symbols(code):
    out, stack = [], [code]
    while stack:
        c = stack.pop()
        out.extend(c.co_names)
        out.extend(c.co_varnames)
        for k in c.co_consts:
            if hasattr(k, "co_code"):
                stack.append(k)
            else:
                out.append(k)
    return out


def judge(events, allowed, d, ctx, marker_text):
    """-> violations from an audit log"""
    viol = []

    def v(clause, expected, observed, **extra):
        sig = dict(ctx)
        sig.update(clause=clause)
        sig.update(extra)
        if not any(x["sig"] == sig for x in viol):
            viol.append(dict(sig=sig, expected=expected, observed=observed))

    last_compile = None
    names_evaluated = 0
    for ev in events:
        kind = ev[0]
        if kind == "compile":
            last_compile = ev
        elif kind == "exec":
            code = ev[1]
            fname = getattr(code, "co_filename", "")
            if fname.startswith(_SCRATCH["sent_dir"]) or fname.startswith(d):
                v("input_module_executed", "no module named by the input is run", "exec of %s" % os.path.basename(fname))
                continue
            if not (fname.startswith("<") and not fname.startswith("<frozen")):
                continue
            src = last_compile[1] if last_compile and last_compile[1] is not None else None
            if src is not None:
                from_input = any(m in src for m in marker_text)
            else:
                # compiled from an AST object: look for input text among the names and constants of the code object
                blob = repr(_code_symbols(code))
                from_input = any(m in blob for m in marker_text)
                src = "<ast> " + blob
            if not from_input:
                continue  # e.g. collections.namedtuple's own generated source
            ops, dunders = effects.code_profile(code)
            if ops or dunders:
                v("input_text_executed", "only name/attribute/subscript loads", "compiled %r -> ops %s dunders %s" % (src[:80], sorted(ops), sorted(dunders)), ops=",".join(sorted(ops)) or "none", dunder=bool(dunders))
            else:
                names_evaluated += 1
        elif kind == "import":
            if ev[1] == SENT or ev[1].startswith(SENT + "."):
                v("sentinel_imported", "never imported", "import %s" % ev[1])
        elif kind == "open":
            path, mode, flags = ev[1], ev[2], ev[3]
            if effects.is_write_mode(mode, flags) and isinstance(path, (str, bytes)):
                sp = os.fsdecode(path)
                if os.path.realpath(sp) not in {os.path.realpath(a) for a in allowed} and sp != os.devnull:
                    v("foreign_write", "only %s opened for writing" % sorted(os.path.basename(a) for a in allowed), "open(%r, %r)" % (os.path.basename(sp), mode), where="scratch" if os.path.realpath(sp).startswith(os.path.realpath(d)) else "elsewhere")
        elif kind in effects.PROCESS_EVENTS or kind.startswith("subprocess.") or kind.startswith("socket.") or kind.startswith("urllib.") or kind.startswith("http."):
            v("process_or_network", "no process spawned, no network", "%s %s" % (kind, ev[1]), event=kind.split(".")[0])
        elif kind in effects.FS_EVENTS:
            v("foreign_fs_change", "no directory/file manipulation", "%s %s" % (kind, ev[1]), event=kind)
    if SENT in sys.modules:
        # importlib.import_module raises no "import" audit event: look at the module table itself (and forget the module, so that the next case starts clean)
        for k in [k for k in sys.modules if k == SENT or k.startswith(SENT + ".")]:
            del sys.modules[k]
        v("sentinel_imported", "never imported", "%s in sys.modules" % SENT)
    for marker in ("IMPORTED", "TOUCHED"):
        mp = os.path.join(_SCRATCH["sent_dir"], marker)
        if os.path.exists(mp):
            os.unlink(mp)
            v("marker_file_created", "no side effect of the payload", marker)
    if os.path.exists(os.path.join(d, "c17mark")):
        v("marker_file_created", "no side effect of the payload", "c17mark")
    return viol, names_evaluated


def run(case):
    d = tempfile.mkdtemp(prefix="c17_")
    viol, transitions, outcomes, extra = [], 0, set(), dict(names_evaluated=0)
    try:
        os.environ["C17MARK"] = os.path.join(d, "c17mark")
        if case["kind"] == "whitelist_block":
            import cdd.docstring.parse

            n = 0
            for k in range(0, case["maxlen"]):
                for rest in itertools.product(TOKENS, repeat=k):
                    text = TOKENS[case["first"]] + "".join(rest)
                    n += 1
                    doc = build_doc("rest", "pdoc", text)
                    with effects.Recording() as ev:
                        try:
                            cdd.docstring.parse.docstring(doc)
                        except Exception:
                            pass
                    events = list(ev)
                    transitions += 1
                    vs, ne = judge(events, set(), d, dict(check="no_execution", entry="docstring_parse", slot="pdoc", payload="token_string"), [SENT, "__import__"])
                    extra["names_evaluated"] += ne
                    for x in vs:
                        if not any(y["sig"] == x["sig"] for y in viol):
                            x["case"] = dict(kind="whitelist_string", text=text)
                            viol.append(x)
            return dict(outcome="ok" if not viol else "diff", transitions=transitions, evaluations=n, violations=viol, extra=dict(n_case_states=n - 1, **extra))
        if case["kind"] == "whitelist_string":
            import cdd.docstring.parse

            doc = build_doc("rest", "pdoc", case["text"])
            with effects.Recording() as ev:
                try:
                    cdd.docstring.parse.docstring(doc)
                except Exception:
                    pass
            vs, ne = judge(list(ev), set(), d, dict(check="no_execution", entry="docstring_parse", slot="pdoc", payload="token_string"), [SENT, "__import__"])
            return dict(outcome="replay", transitions=1, violations=vs)
        if case["kind"] == "control":
            return run_control(case, d)
        if case["kind"] == "route":
            return run_route(case, d)
        if case["kind"] == "imports_file":
            return run_imports_file(case, d)
        p = PAYLOADS.get(case["payload"], "").replace("c17mark", repr(os.path.join(d, "c17mark")))
        markers = [SENT, "c17x", "c17mark", "c17y", "c17i"] + (["exit", "os.system"] if case["payload"] in NAME_ONLY else [])
        ctx = dict(check="no_execution", entry=case["entry"], slot=case["slot"], payload=case["payload"])
        if "quote" in case:
            p = dict(QUOTES)[case["quote"]] % p
            ctx["quote"] = case["quote"]
        allowed = set()
        transitions += 1
        try:
            if case["kind"] == "doc":
                if case.get("doc_context"):
                    p = DOC_CONTEXTS[case["doc_context"]].format(p=p)
                    ctx["doc_context"] = case["doc_context"]
                doc = build_doc(case["style"], case["slot"], p)
                ctx["style"] = case["style"]
                src = doc if case["entry"].startswith("docstring_parse") else module_with_doc(doc)
                thunk, allowed = run_entry(case["entry"], src, d, False)
            elif case["kind"] == "code":
                ctx["context"] = case.get("context", "plain")
                thunk, allowed = run_entry(case["entry"], module_with_code(case["slot"], CONTEXTS[case.get("context", "plain")].format(p=p)), d, True)
            elif case["kind"] == "deser":
                thunk, allowed = deser_thunk(case["entry"], case["payload"], d)
            elif case["kind"] == "live":
                thunk = live_thunk(case["entry"], case["slot"], p, d)
            elif case["kind"] == "ir":
                thunk = lambda: run_emitters(case["slot"], p)  # noqa
            else:
                import cdd.json_schema.parse

                thunk = lambda: cdd.json_schema.parse.json_schema({"$id": "https://example.com/x.json", "description": p, "type": "object", "required": ["a"],  # noqa
                                                                   "properties": {"a": {"description": p, "type": "string", "default": p, "pattern": p}}})
        except SyntaxError:
            # the payload does not fit this slot syntactically (e.g. a statement where an expression is needed): nothing to analyse
            return dict(outcome="not-applicable", transitions=0, nontrivial=False, violations=[])
        with effects.Recording() as ev:
            try:
                thunk()
                outcomes.add("returns")
            except SystemExit:
                outcomes.add("exits")
            except Exception as e:
                outcomes.add("raises")
        events = list(ev)
        vs, ne = judge(events, allowed, d, ctx, markers)
        extra["names_evaluated"] += ne
        viol.extend(vs)
    finally:
        shutil.rmtree(d, ignore_errors=True)
    return dict(outcome="+".join(sorted(outcomes)) or "none", transitions=transitions, violations=viol, extra=extra)


def deser_thunk(entry, dk, d):
    import cdd.argparse_function.parse

    typ, default = DESER[dk]
    src = (
        'def f(a=1, b=5):\n    """\n    Summary.\n\n    :param a: the a\n\n    :param b: the b\n    """\n    return a\n\n\n'
        'class ConfigClass(object):\n    """\n    Summary.\n\n    :cvar a: the a\n    :cvar b: the b\n    """\n\n    a: int = 1\n    b: int = 5\n\n\n'
        'def set_cli_args(argument_parser):\n    """\n    Set CLI arguments\n\n    :param argument_parser: argument parser\n    :type argument_parser: ```ArgumentParser```\n\n'
        '    :return: argument_parser\n    :rtype: ```ArgumentParser```\n    """\n    argument_parser.description = "Summary."\n'
        "    argument_parser.add_argument('--a', type=%s, help='the a', default=%s)\n    argument_parser.add_argument('--b', type=int, help='the b', default=5)\n    return argument_parser\n" % (typ, default)
    )
    allowed = set()
    if entry.startswith("argparse_parse"):
        node = next(n for n in ast.parse(src).body if isinstance(n, ast.FunctionDef) and n.name == "set_cli_args")
        return (lambda: cdd.argparse_function.parse.argparse_ast(node, infer_type=entry.endswith("infer"))), allowed
    if entry == "gen_file_argparse":
        p = os.path.join(d, "gen_in.py")
        with open(p, "wt") as f:
            f.write(src.split("def set_cli_args", 1)[0].join(["", ""]) and "def set_cli_args" + src.split("def set_cli_args", 1)[1])
        out = os.path.join(d, "gen_out.py")
        allowed.add(out)
        return (lambda: _main(["gen", "--name-tpl", "{name}Gen", "--input-mapping", p, "--parse", "argparse", "--emit", "class", "-o", out])), allowed
    c, f_, a = (os.path.join(d, n) for n in ("s_class.py", "s_fn.py", "s_cli.py"))
    for p in (c, f_, a):
        with open(p, "wt") as fh:
            fh.write(src)
        allowed.add(p)
    return (lambda: _main(["sync", "--class", c, "--class-name", "ConfigClass", "--function", f_, "--function-name", "f", "--argparse-function", a, "--argparse-function-name", "set_cli_args", "--truth", "argparse_function"])), allowed


_LIVE_N = [0]


def live_thunk(entry, slot, p, d):
    """a function / class object imported (outside the recording) from a scratch module in which the payload is an annotation kept as text"""
    import importlib.util

    import cdd.class_.parse
    import cdd.function.parse

    postponed = slot.startswith("postponed")
    ann = p if postponed else repr(p)
    a_ann, r_ann = (ann, "int") if slot.endswith("annotation") else ("int", ann)
    src = (
        ("from __future__ import annotations\n\n\n" if postponed else "")
        + 'def f(a: %s = 1, b=5) -> %s:\n    """\n    Summary.\n\n    :param a: the a\n\n    :param b: the b\n    """\n    return a\n\n\n' % (a_ann, r_ann)
        + 'class ConfigClass(object):\n    """\n    Summary.\n\n    :cvar a: the a\n    """\n\n    a: %s = 1\n\n    def __call__(self, c: %s = 2) -> %s:\n        """\n        Call.\n\n        :param c: the c\n        """\n        return c\n' % (a_ann, a_ann, r_ann)
    )
    ast.parse(src)  # SyntaxError -> not applicable
    _LIVE_N[0] += 1
    name = "c17_live_%d_%d" % (os.getpid(), _LIVE_N[0])
    path = os.path.join(d, name + ".py")
    with open(path, "wt") as f:
        f.write(src)
    spec = importlib.util.spec_from_file_location(name, path)
    mod = importlib.util.module_from_spec(spec)
    sys.modules[name] = mod  # inspect.getsource goes through sys.modules
    spec.loader.exec_module(mod)  # annotations are text: importing the module evaluates none of them

    def thunk():
        try:
            if entry.startswith("function_live"):
                return cdd.function.parse.function(mod.f, infer_type=entry.endswith("infer"))
            return cdd.class_.parse.class_(mod.ConfigClass, merge_inner_function="__call__" if entry.endswith("merge") else None)
        finally:
            sys.modules.pop(name, None)

    return thunk


IMPORT_LINES = [
    ("from_dotted", "from %s.sub import thing" % SENT),
    ("import_dotted", "import %s.sub" % SENT),
    ("import_dotted_as", "import %s.sub.deep as d" % SENT),
    ("import_single", "import %s" % SENT),
    ("from_single", "from %s import touch" % SENT),
    ("relative", "from . import %s" % SENT),
    ("in_try", "try:\n    import %s.sub\nexcept ImportError:\n    pass" % SENT),
]


def run_imports_file(case, d):
    """gen with --imports-from-file naming a *file* whose import statements name the sentinel"""
    line = dict(IMPORT_LINES)[case["payload"]]
    src = os.path.join(d, "gin.py")
    with open(src, "wt") as f:
        f.write('class A(object):\n    """\n    A.\n\n    :cvar n: the n\n    """\n\n    n: Optional[int] = 5\n')
    imp = os.path.join(d, "imports_src.py")
    with open(imp, "wt") as f:
        f.write("from typing import Optional\n" + line + "\nimport os\n")
    out = os.path.join(d, "gout.py")
    argv = ["gen", "--name-tpl", "{name}G", "--input-mapping", src, "--parse", "class", "--emit", "class", "-o", out, "--imports-from-file", imp, "--emit-and-infer-imports"]
    if case["prepend"]:
        argv += ["--prepend", "import json\n"]
    ctx = dict(check="no_execution", entry=case["entry"], slot=case["slot"], payload=case["payload"], prepend=case["prepend"])
    outcome = "returns"
    with effects.Recording() as ev:
        try:
            _main(argv)
        except SystemExit:
            outcome = "exits"
        except Exception:
            outcome = "raises"
    vs, ne = judge(list(ev), {out}, d, ctx, [SENT])
    return dict(outcome=outcome, transitions=1, violations=vs, extra=dict(names_evaluated=ne))


def run_route(case, d):
    """a route whose docstring block (YAML or JSON) names code, through the route/OpenAPI parsers"""
    import cdd.compound.openapi.gen_openapi
    import cdd.compound.openapi.parse
    import cdd.routes.parse.bottle
    import cdd.routes.parse.fastapi

    p = YAML_PAYLOADS[case["payload"]].replace("c17mark", repr(os.path.join(d, "c17mark")))
    block = yaml_block(case["slot"], p)
    ctx = dict(check="no_execution", entry=case["entry"], slot=case["slot"], payload=case["payload"])
    allowed = set()
    if case["entry"] == "fastapi_parse":
        # FastAPI routes carry their responses as a decorator keyword (code, not YAML): the payload sits where a model/description expression goes
        src = '@app.get("/api/config", responses={404: {"model": %s, "description": "x"}})\ndef read():\n    return 1\n' % ('"%s"' % p.replace('"', "'") if p.startswith("!!") else p)
        try:
            node = ast.parse(src).body[0]
        except SyntaxError:
            return dict(outcome="not-applicable", transitions=0, nontrivial=False, violations=[])
        thunk = lambda: cdd.routes.parse.fastapi.fastapi(node)  # noqa
    else:
        src = ROUTE_TPL.format(block="\n".join("    " + l for l in block.split("\n")))
        if case["entry"] == "bottle_parse":
            node = ast.parse(src).body[0]
            thunk = lambda: cdd.routes.parse.bottle.bottle(node)  # noqa
        elif case["entry"] == "openapi_parse":
            thunk = lambda: cdd.compound.openapi.parse.openapi(block, {"route": "/api/config/:dataset_name", "name": "rest_api", "method": "get"}, "Find one Config")  # noqa
        else:
            rp, mp = os.path.join(d, "routes.py"), os.path.join(d, "models.py")
            with open(rp, "wt") as f:
                f.write(src)
            with open(mp, "wt") as f:
                f.write(MODEL_SRC)
            thunk = lambda: cdd.compound.openapi.gen_openapi.openapi_bulk(app_name="rest_api", model_paths=[mp], routes_paths=[rp])  # noqa
    outcome = "returns"
    with effects.Recording() as ev:
        try:
            thunk()
        except SystemExit:
            outcome = "exits"
        except Exception:
            outcome = "raises"
    vs, ne = judge(list(ev), allowed, d, ctx, [SENT, "c17mark"])
    if os.path.isdir(os.path.join(d, "c17mark")):
        pass  # already reported by judge() as marker_file_created
    return dict(outcome=outcome, transitions=1, violations=vs, extra=dict(names_evaluated=ne))


def run_emitters(slot, p):
    from mc import alphabets as A
    from mc import formats as F

    param = OrderedDict((("doc", "the a"), ("typ", "int"), ("default", 5)))
    if slot == "doc":
        param["doc"] = p
    elif slot == "default":
        param["typ"] = "str"
        param["default"] = p
    else:
        param["typ"] = p
    ir = A.mk_ir([("a", param)], OrderedDict((("doc", p if slot == "doc" else "the result"), ("typ", "int"))), p if slot == "doc" else "Summary.", name="Cfg")
    for fmt in ("docstring", "class", "pydantic", "function", "argparse", "json_schema", "sqlalchemy", "sqlalchemy_table", "sqlalchemy_hybrid"):
        try:
            node = F.emit_ast(fmt, deepcopy(ir), "rest", True)
            if not isinstance(node, (str, dict)):
                F.render(node)
        except Exception:
            pass


def run_control(case, d):
    """positive controls: the monitor must SEE execution on the two sanctioned paths"""
    import cdd.compound.sync_properties

    viol = []
    with effects.Recording() as ev:
        try:
            if case["entry"] == "sync_properties_input_eval":
                ip, op = os.path.join(d, "in.py"), os.path.join(d, "out.py")
                with open(ip, "wt") as f:
                    f.write("import %s\nt = ('p', 'q')\n" % SENT)
                with open(op, "wt") as f:
                    f.write("class Out(object):\n    x: int = 1\n")
                cdd.compound.sync_properties.sync_properties(input_eval=True, input_filename=ip, input_params=["t"], output_filename=op, output_params=["Out.x"])
            else:
                src = os.path.join(d, "gin.py")
                with open(src, "wt") as f:
                    f.write('class A(object):\n    """\n    A.\n\n    :cvar n: the n\n    """\n\n    n: int = 5\n')
                imp = os.path.join(d, "imp.py")
                with open(imp, "wt") as f:
                    f.write("import os\n")
                _main(["gen", "--name-tpl", "{name}G", "--input-mapping", src, "--parse", "class", "--emit", "class", "-o", os.path.join(d, "gout.py"), "--prepend", "import %s\n" % SENT, "--imports-from-file", imp])
        except BaseException:  # noqa
            pass
    events = list(ev)
    for k in [k for k in sys.modules if k == SENT or k.startswith(SENT + ".")]:
        del sys.modules[k]  # the sanctioned import must not be attributed to the cases that follow
    seen = any(e[0] == "import" and e[1] == SENT for e in events) or os.path.exists(os.path.join(_SCRATCH["sent_dir"], "IMPORTED"))
    mp = os.path.join(_SCRATCH["sent_dir"], "IMPORTED")
    if os.path.exists(mp):
        os.unlink(mp)
    if not seen and case["entry"] == "sync_properties_input_eval":
        viol.append(dict(sig=dict(check="monitor_control", entry=case["entry"]), expected="the monitor sees the sanctioned execution (import of the sentinel)", observed="nothing recorded"))
    return dict(outcome="control-seen" if seen else "control-not-seen", transitions=1, violations=viol)


def describe(tier):
    return dict(
        rule="targeted: {de} docstring entry points x 6 docstring slots x {p} payloads x 3 quotings (x 3 styles for the docstring parser); {ce} code entry points x "
        "5 code slots x {p} payloads; all emitters on interfaces whose doc/default/typ are payloads; json_schema parse; {re} route/OpenAPI entry points (bottle route parser, openapi parser, openapi_bulk on files, "
        "FastAPI route parser; {dc} type-guess positions of a description x 2 slots x {p} payloads x 2 quotings x 3 styles; {le} live-object entry points x {ls} text-annotation slots x {p} payloads; {dn} argparse arguments whose type= names a deserialiser/evaluator and whose default= is its payload x {den} entry points) x {ys} places in the route docstring's YAML/JSON block x {yp} YAML payloads (python-specific tags that name callables/modules, and Python call text); 2 positive controls; exhaustive: every "
        "description of <= {n} tokens over a 15-token whitelist-probing alphabet through docstring.parse; a case = one call under the audit hook".format(
            de=len(DOC_ENTRIES), ce=len(CODE_ENTRIES), p=len(PAYLOADS), n=3 if tier == "quick" else 4, re=len(ROUTE_ENTRIES), ys=len(YAML_SLOTS), yp=len(YAML_PAYLOADS), dc=len(DOC_CONTEXTS), le=len(LIVE_ENTRIES), ls=len(LIVE_SLOTS), dn=len(DESER), den=len(DESER_ENTRIES)),
        bounds=dict(payloads=dict(PAYLOADS), yaml_payloads=dict(YAML_PAYLOADS), yaml_slots=YAML_SLOTS, route_entries=ROUTE_ENTRIES, doc_slots=DOC_SLOTS, code_slots=CODE_SLOTS, tokens=TOKENS),
        exhaustive=True,
        explanation="names_evaluated counts executions of string-compiled code derived from input text that only loaded names/attributes (what the type probe does today); "
        "they are reported, not violations",
        assumptions=["sys.addaudithook sees every compile/exec/import/open/process/socket event of CPython", "input-derived code is recognised by marker substrings of the payloads in the compiled source text",
                     "lazy first-use imports of cdd/black are warmed before recording"],
    )
