"""
C18 - every public module imports on its own, in any order.

Exhaustive over import histories of length 1 and 2: every module first in a fresh interpreter (real subprocess), and every
ordered pair (m1, m2) in a child forked from a parent that has imported the third-party dependencies but nothing of cdd.
Oracle: no exception; after A,B and after B,A each module exposes the same public names.
"""
import hashlib
import importlib
import json
import os
import subprocess
import sys
import traceback

PROPERTY = "C18"
REPRODUCE = True
STATE_IS_CASE = True
REPO = os.environ.get("CDD_REPO", "/repo")


def modules():
    out = []
    base = os.path.join(_cdd_dir())
    for root, dirs, files in os.walk(base):
        dirs.sort()
        rel = os.path.relpath(root, os.path.dirname(base))
        parts = rel.split(os.sep)
        if "tests" in parts or "__pycache__" in parts:
            dirs[:] = []
            continue
        for f in sorted(files):
            if not f.endswith(".py"):
                continue
            if f == "__init__.py":
                out.append(".".join(parts))
            else:
                out.append(".".join(parts + [f[:-3]]))
    return sorted(set(out))


def _cdd_dir():
    # located without importing cdd (the parent must stay clean of it)
    for p in sys.path:
        cand = os.path.join(p or ".", "cdd", "__init__.py")
        if os.path.isfile(cand) and os.path.isdir(os.path.join(p or ".", "cdd", "shared")):
            return os.path.join(p or ".", "cdd")
    import importlib.util

    spec = importlib.util.find_spec("cdd")
    return os.path.dirname(spec.origin)


def cases(tier, seed):
    mods = modules()
    for m in mods:
        yield dict(kind="single", order=[m])
    for a in mods:
        # one case per first module: its child processes cover every second module (both orders appear as (a,b) and (b,a))
        yield dict(kind="pairs_from", first=a)
    if tier == "thorough":
        for a in mods:
            yield dict(kind="pairs_from_subprocess", first=a)


def worker_init(tier, seed):
    # warm the third-party dependencies, never cdd
    for m in ("black", "yaml", "setuptools", "typing_extensions", "ast", "argparse", "json"):
        try:
            importlib.import_module(m)
        except Exception:
            pass
    assert not any(k == "cdd" or k.startswith("cdd.") for k in sys.modules), "parent polluted with cdd"


def _public_names(modname):
    """what the module exposes: its __all__ (with, per name, whether it is really bound) and every bound public name that is not a module"""
    mod = sys.modules[modname]
    declared = getattr(mod, "__all__", None)
    # sub-modules become attributes of their package when imported: that is Python, not a property of cdd
    bound = sorted(n for n, v in vars(mod).items() if not n.startswith("_") and not isinstance(v, type(sys)))
    return dict(all=None if declared is None else sorted("%s%s" % (n, "" if hasattr(mod, str(n)) else " (unbound)") for n in map(str, declared)), bound=bound)


def _child_import(order):
    """runs in a forked child: import in order; -> dict"""
    try:
        for m in order:
            importlib.import_module(m)
        return dict(ok=True, names={m: hashlib.sha256(json.dumps(_public_names(m)).encode()).hexdigest()[:12] for m in order},
                    unbound={m: [n for n in (_public_names(m)["all"] or []) if n.endswith(" (unbound)")] for m in order})
    except BaseException as e:
        tb = traceback.extract_tb(e.__traceback__)
        return dict(ok=False, exc=type(e).__name__, msg=str(e)[:300], failed_at=order[[m in sys.modules for m in order].index(False)] if not all(m in sys.modules for m in order) else order[-1])


def fork_run(order):
    r, w = os.pipe()
    pid = os.fork()
    if pid == 0:
        code = 0
        try:
            os.close(r)
            res = _child_import(order)
            os.write(w, json.dumps(res).encode())
        except BaseException:
            code = 3
        finally:
            os._exit(code)
    os.close(w)
    chunks = []
    while True:
        b = os.read(r, 65536)
        if not b:
            break
        chunks.append(b)
    os.close(r)
    os.waitpid(pid, 0)
    try:
        return json.loads(b"".join(chunks).decode())
    except Exception:
        return dict(ok=False, exc="ChildDied", msg="no result from child", failed_at=order[-1])


def subprocess_run(order):
    code = "import importlib,sys\nfor m in %r:\n    importlib.import_module(m)\n" % (order,)
    env = dict(os.environ, PYTHONDONTWRITEBYTECODE="1")
    p = subprocess.run([sys.executable, "-B", "-c", code], stdout=subprocess.PIPE, stderr=subprocess.PIPE, text=True, env=env, cwd="/")
    if p.returncode == 0:
        return dict(ok=True, names={})
    last = p.stderr.strip().splitlines()[-1] if p.stderr.strip() else "exit %d" % p.returncode
    return dict(ok=False, exc=last.split(":")[0], msg=last[:300], failed_at=order[-1])


def _viol(order, res, via):
    sig = dict(check="import_history", length=len(order), first=order[0], exc=res["exc"])
    if len(order) == 2:
        sig["second"] = order[1]
    return dict(sig=sig, case=dict(kind="single", order=order, via=via), expected="import %s succeeds" % " then ".join(order), observed="%s: %s" % (res["exc"], res["msg"]))


_ALONE = {}


def alone(m):
    """public-name digest of m imported on its own (None when that fails); cached per worker"""
    if m not in _ALONE:
        r = fork_run([m])
        _ALONE[m] = r["names"].get(m) if r["ok"] else None
    return _ALONE[m]


def check_pair(a, b, runner):
    """history [a, b] -> (ok, violations)"""
    via = "fork" if runner is fork_run else "subprocess"
    res = runner([a, b])
    if not res["ok"]:
        if res.get("failed_at") == a and alone(a) is None:
            return False, []  # the length-1 history already reports that `a` cannot be imported first
        return False, [_viol([a, b], res, via)]
    viol = []
    for m, names in (res.get("unbound") or {}).items():
        if names:
            # whatever the order: a module must bind every name its __all__ lists
            viol.append(dict(sig=dict(check="all_lists_unbound_name", module=m), case=dict(kind="single", order=[a, b], via=via), expected="every name in %s.__all__ is bound" % m, observed=names[:5]))
    if runner is fork_run:
        for m, other, how in ((a, b, "after importing "), (b, a, "when imported after ")):
            ref = alone(m)
            if ref is not None and res["names"].get(m) != ref:
                viol.append(dict(sig=dict(check="import_order_names", module=m, other=other), case=dict(kind="single", order=[a, b], via="fork"),
                                 expected="public names of %s independent of history" % m, observed="differ " + how + other))
    return True, viol


def run(case):
    if case["kind"] == "single":
        order = case["order"]
        via = case.get("via", "subprocess" if len(order) == 1 else "fork")
        if len(order) == 2:
            ok, viol = check_pair(order[0], order[1], subprocess_run if via == "subprocess" else fork_run)
            return dict(outcome="ok" if ok else "fails", transitions=2, evaluations=1, violations=viol)
        res = subprocess_run(order) if via == "subprocess" else fork_run(order)
        viol = [] if res["ok"] else [_viol(order, res, via)]
        return dict(outcome="ok" if res["ok"] else "fails:" + res["exc"], transitions=1, evaluations=1, violations=viol)
    a = case["first"]
    runner = fork_run if case["kind"] == "pairs_from" else subprocess_run
    viol, n, outcomes = [], 0, set()
    for b in modules():
        if b == a:
            continue
        n += 1
        ok, vs = check_pair(a, b, runner)
        outcomes.add("ok" if ok else "fails")
        viol.extend(vs)
    return dict(outcome="+".join(sorted(outcomes)), transitions=2 * n, evaluations=n, violations=viol, extra=dict(n_case_states=n - 1))


def describe(tier):
    mods = modules()
    return dict(
        rule="M = the {n} non-test modules and packages under cdd/ (discovered at run time); every m first in a fresh interpreter (real "
        "subprocess); every ordered pair (m1, m2) in a child forked from a parent that imported black/yaml/setuptools/typing_extensions but "
        "nothing of cdd{t}; a case is one import history; all are non-trivial".format(n=len(mods), t="; thorough: every pair again in a real subprocess" if tier == "thorough" else ""),
        bounds=dict(modules=len(mods), histories_len1=len(mods), histories_len2=len(mods) * (len(mods) - 1)),
        exhaustive=True,
        assumptions=["fork from a cdd-free parent is equivalent to a fresh interpreter for the purposes of cdd's import graph (validated by the thorough tier's real subprocesses)",
                     "'public module' = every .py under cdd/ outside cdd/tests/"],
    )
