"""
C19 - gen writes a valid module that exports exactly what it generated.

Exhaustive over input files (1..3 symbols of a 6-interface alphabet as classes / functions / argparse functions / mixed, or a JSON-schema
file) x parse kind (explicit / infer) x 8 emit kinds x name template x --emit-and-infer-imports x --prepend/--imports-from-file x output
absent/present.  Oracle: output compiles; defines exactly the templated names; __all__ equals them; every symbol parsed back has the
interface of its source entry; with inference every typing/SQLAlchemy name used is imported; an existing output makes gen refuse and
stay untouched.
"""
import ast
import io
import itertools
import json
import os
import sys
import shutil
import tempfile
import typing
from collections import OrderedDict
from contextlib import redirect_stderr, redirect_stdout
from copy import deepcopy

from mc import alphabets as A
from mc import core
from mc import formats as F
from mc import oracle as O
from mc.checks import c05

PROPERTY = "C19"

SYMBOLS = OrderedDict(
    (
        ("Alpha", [("n", OrderedDict((("doc", "the count"), ("typ", "int"), ("default", 5))))]),
        ("Beta", [("names", OrderedDict((("doc", "the names"), ("typ", "Optional[List[str]]"), ("default", A.NoneStr)))), ("mode", OrderedDict((("doc", "the mode"), ("typ", "Literal['x', 'y', 'z']"), ("default", "x"))))]),
        ("Gamma", [("flag", OrderedDict((("doc", "a flag"), ("typ", "bool"), ("default", False)))), ("ratio", OrderedDict((("doc", "a ratio"), ("typ", "float"), ("default", 0.5))))]),
        ("Delta", [("label", OrderedDict((("doc", "the label"), ("typ", "str"), ("default", "lbl"))))]),
        ("Epsilon", [("size", OrderedDict((("doc", "the size"), ("typ", "Optional[int]"), ("default", A.NoneStr)))), ("tag", OrderedDict((("doc", "the tag"), ("typ", "str"), ("default", "t"))))]),
    )
)
INPUT_KINDS = ["class", "function", "argparse"]
EMITS = ["class", "pydantic", "function", "argparse", "json_schema", "sqlalchemy", "sqlalchemy_table", "sqlalchemy_hybrid"]
TEMPLATES = ["{name}", "{name}Config"]
SQL_NAMES = {"Column", "Integer", "String", "Boolean", "Float", "JSON", "Enum", "Identity", "Table", "ARRAY", "LargeBinary", "BigInteger", "Text", "ForeignKey", "DateTime"}
TYPING_NAMES = set(typing.__all__)


def symbol_ir(name):
    return A.mk_ir([(n, deepcopy(p)) for n, p in SYMBOLS[name]], None, "The %s thing." % name, name=name)


def render_symbol(kind, name):
    import cdd.argparse_function.emit
    import cdd.class_.emit
    import cdd.function.emit

    ir = symbol_ir(name)
    if kind == "class":
        node = cdd.class_.emit.class_(ir, class_name=name, emit_default_doc=False)
    elif kind == "function":
        node = cdd.function.emit.function(ir, function_name=name, function_type="static", emit_default_doc=False, indent_level=1, emit_as_kwonlyargs=False)
    else:
        node = cdd.argparse_function.emit.argparse_function(ir, emit_default_doc=False, function_name=name, function_type="static")
    return F.render(node)


def cases(tier, seed):
    names = list(SYMBOLS)
    inputs = []
    for kind in INPUT_KINDS:
        for k in (1, 2, 3) if tier == "quick" else (1, 2, 3, 4, 5):
            inputs.append(dict(kinds=[kind] * k, names=names[:k]))
    inputs.append(dict(kinds=["class", "function"], names=names[:2]))
    inputs.append(dict(kinds=["class", "class", "argparse"], names=names[:3]))
    inputs.append(dict(kinds=["function", "class"], names=names[:2]))
    if tier != "quick":
        inputs.append(dict(kinds=["class", "function", "argparse", "class", "function"], names=names[:5]))
        inputs.append(dict(kinds=["argparse", "class", "class", "function"], names=names[:4]))
    for inp in inputs:
        homogeneous = len(set(inp["kinds"])) == 1
        for parse in (["explicit", "infer"] if homogeneous else ["infer"]):
            for emit in EMITS:
                for tpl in TEMPLATES:
                    for infer_imports, prepend, imports_file in ((False, False, False), (True, False, False), (False, True, True), (True, True, True)):
                        yield dict(kind="gen", input=inp, parse=parse, emit=emit, tpl=tpl, infer_imports=infer_imports, prepend=prepend, imports_file=imports_file, existing=None)
    # the input mapping given as a directory of modules (one symbol per file) and as `module.SYMBOL` naming a dict of live objects
    for input_as in ("dir", "module_symbol"):
        for inp in ([i for i in inputs if len(i["names"]) <= 3 and (len(set(i["kinds"])) > 1 or i["kinds"][0] in ("class", "function"))] if tier == "quick" else inputs):
            if input_as == "module_symbol" and "argparse" in inp["kinds"]:
                continue
            for emit in EMITS:
                yield dict(kind="gen", input=inp, parse="infer", emit=emit, tpl="{name}Config", infer_imports=True, prepend=False, imports_file=False, existing=None, input_as=input_as)
    # further options of the command: --no-word-wrap, --decorator (class emit), --emit-call (function input carrying a body)
    for inp in inputs[:7]:
        for emit in EMITS:
            for flags in (["--no-word-wrap"], ["--decorator", "dataclass"], ["--emit-call"], ["--no-word-wrap", "--emit-call", "--decorator", "dataclass", "--decorator", "total_ordering"]):
                if "--decorator" in flags and emit != "class" and len(flags) == 2:
                    continue
                yield dict(kind="gen", input=inp, parse="infer", emit=emit, tpl="{name}Config", infer_imports=True, prepend=False, imports_file=False, existing=None, flags=flags)
    # the non-clobbering guard: output present (empty / with content)
    for emit in EMITS:
        for existing in ("content", "empty"):
            for prepend in (False, True):
                yield dict(kind="gen", input=inputs[0], parse="explicit", emit=emit, tpl="{name}", infer_imports=False, prepend=prepend, imports_file=False, existing=existing)
    # JSON-schema input
    for emit in ("class", "sqlalchemy", "argparse"):
        yield dict(kind="gen_json", emit=emit, tpl="{name}Config")
    # declarative SQLAlchemy models as input, with the base classes listed in the usual ways: --parse infer must read them as what --parse sqlalchemy reads from `(Base)`
    for names_, bases, emit in itertools.product((["Alpha"], ["Gamma", "Delta"], ["Epsilon", "Alpha", "Gamma"]), SQL_BASES, EMITS):
        yield dict(kind="gen_sql_infer", names=names_, bases=bases, emit=emit, tpl="{name}Config")


SQL_BASES = ["Base", "AuditMixin, Base", "Base, AuditMixin", "db.Model, Base", "TimestampMixin, AuditMixin, Base"]


def render_sql_model(name, bases):
    import cdd.sqlalchemy.emit

    node = cdd.sqlalchemy.emit.sqlalchemy(symbol_ir(name), class_name=name, emit_repr=False)
    node.bases = [ast.parse(b.strip(), mode="eval").body for b in bases.split(",")]
    return F.render(ast.fix_missing_locations(node))


def _run_sql_infer(case):
    """differential: gen --parse infer on models whose bases are `case["bases"]` against gen --parse sqlalchemy on the same models declared `(Base)`"""
    viol = []
    d = tempfile.mkdtemp(prefix="c19s_")
    ctx = dict(check="gen", emit=case["emit"], parse="infer", input_kinds="sqlalchemy", n_symbols=len(case["names"]), bases={"Base": "base_only", "Base, AuditMixin": "base_first"}.get(case["bases"], "base_not_first"))
    try:
        outs = {}
        for tag, bases, parse in (("infer", case["bases"], "infer"), ("explicit", "Base", "sqlalchemy")):
            src = os.path.join(d, "inp_%s.py" % tag)
            with open(src, "wt") as f:
                f.write("from sqlalchemy import *\n\n\n" + "\n\n\n".join(render_sql_model(n, bases) for n in case["names"]) + "\n")
            out = os.path.join(d, "out_%s.%s" % (tag, "json" if case["emit"] == "json_schema" else "py"))
            try:
                _main(["gen", "--name-tpl", case["tpl"], "--input-mapping", src, "--parse", parse, "--emit", case["emit"], "-o", out])
                outs[tag] = open(out, "rt").read() if os.path.isfile(out) else "<no output>"
            except (SystemExit, Exception) as e:
                outs[tag] = "<raises %s>" % type(e).__name__
                if os.path.isfile(out):
                    os.unlink(out)
        if outs["explicit"].startswith("<"):
            viol.append(dict(sig=dict(ctx, clause="gen_raises", parse="sqlalchemy", exc=outs["explicit"].strip("<>").replace("raises ", "")), expected="a module is written", observed=outs["explicit"]))
        if outs["infer"] != outs["explicit"]:
            import difflib

            diff = [l for l in difflib.unified_diff(outs["explicit"].split("\n"), outs["infer"].split("\n"), lineterm="", n=0) if not l.startswith(("---", "+++", "@@"))]
            viol.append(dict(sig=dict(ctx, clause="inferred_parse_differs_from_explicit", explicit_ok=not outs["explicit"].startswith("<")), expected="the module that --parse sqlalchemy writes for the same models declared (Base)",
                             observed="; ".join(diff[:6])[:400]))
        return dict(outcome="ok" if not viol else "diff", violations=viol, detail=outs["infer"][:2500])
    finally:
        shutil.rmtree(d, ignore_errors=True)


def _main(argv):
    import cdd.__main__

    with redirect_stdout(io.StringIO()), redirect_stderr(io.StringIO()):
        cdd.__main__.main(argv)


PARSERS = {"class": "class", "pydantic": "pydantic", "function": "function", "argparse": "argparse", "sqlalchemy": "sqlalchemy", "sqlalchemy_table": "sqlalchemy_table", "sqlalchemy_hybrid": "sqlalchemy_hybrid"}
RULES = {"class": {}, "pydantic": {}, "function": dict(absent_default_is_none=True), "argparse": dict(ret_only_if_default=True), "sqlalchemy": {}, "sqlalchemy_table": {}, "sqlalchemy_hybrid": {}}


def defined_names(tree):
    out = []
    for st in tree.body:
        if isinstance(st, (ast.FunctionDef, ast.AsyncFunctionDef, ast.ClassDef)):
            out.append((st.name, st))
        elif isinstance(st, ast.Assign):
            for t in st.targets:
                if isinstance(t, ast.Name) and t.id != "__all__":
                    out.append((t.id, st))
        elif isinstance(st, ast.AnnAssign) and isinstance(st.target, ast.Name) and st.target.id != "__all__":
            out.append((st.target.id, st))
    return out


def imported_names(tree):
    out = set()
    for st in ast.walk(tree):
        if isinstance(st, ast.Import):
            out.update((a.asname or a.name).split(".")[0] for a in st.names)
        elif isinstance(st, ast.ImportFrom):
            out.update(a.asname or a.name for a in st.names)
    return out


def get_all(tree):
    for st in tree.body:
        if isinstance(st, ast.Assign) and any(isinstance(t, ast.Name) and t.id == "__all__" for t in st.targets):
            try:
                return list(ast.literal_eval(st.value))
            except Exception:
                return "unevaluable"
    return None


def _run(case):
    viol = []
    d = tempfile.mkdtemp(prefix="c19_")
    ctx = dict(check="gen", emit=case["emit"])
    if case["kind"] == "gen":
        ctx.update(parse=case["parse"], input_kinds=",".join(sorted(set(case["input"]["kinds"]))), n_symbols=len(case["input"]["names"]), infer_imports=case["infer_imports"],
                   prepend=case["prepend"], tpl_identity=case["tpl"] == "{name}")

    def v(clause, expected, observed, **extra):
        sig = dict(ctx)
        sig.update(clause=clause)
        sig.update(extra)
        if not any(x["sig"] == sig for x in viol):
            viol.append(dict(sig=sig, expected=expected, observed=observed))

    try:
        out = os.path.join(d, "out.json" if case["emit"] == "json_schema" else "out.py")
        if case["kind"] == "gen_json":
            import cdd.json_schema.emit

            src = os.path.join(d, "alpha.json")
            with open(src, "wt") as f:
                json.dump(cdd.json_schema.emit.json_schema(symbol_ir("Alpha"), "https://example.com/alpha.json"), f)
            argv = ["gen", "--name-tpl", case["tpl"], "--input-mapping", src, "--parse", "json_schema", "--emit", case["emit"], "-o", out]
            names, kinds = ["alphajson"], ["json_schema"]  # the mapping key is the file name; the template result is made a valid identifier
        else:
            names, kinds = case["input"]["names"], case["input"]["kinds"]
            input_as = case.get("input_as", "file")
            ctx["input_as"] = input_as
            if input_as == "file":
                src = os.path.join(d, "inp.py")
                with open(src, "wt") as f:
                    f.write("from typing import *\n\n\n" + "\n\n\n".join(render_symbol(k, n) for k, n in zip(kinds, names)) + "\n")
            elif input_as == "dir":
                src = os.path.join(d, "inputs")
                os.mkdir(src)
                # file names in an order different from both creation order and symbol order
                for fname, (k, n) in zip(("m_b.py", "m_c.py", "m_a.py", "m_e.py", "m_d.py"), zip(kinds, names)):
                    with open(os.path.join(src, fname), "wt") as f:
                        f.write("from typing import *\n\n\n" + render_symbol(k, n) + "\n")
            else:
                modname = "c19_inmod_%d" % os.getpid()
                with open(os.path.join(d, modname + ".py"), "wt") as f:
                    f.write("from typing import *\n\n\n" + "\n\n\n".join(render_symbol(k, n) for k, n in zip(kinds, names)) + "\n\n\nMAPPING = {%s}\n" % ", ".join("%r: %s" % (n, n) for n in names))
                sys.path.insert(0, d)
                src = modname + ".MAPPING"
            parse = kinds[0] if case["parse"] == "explicit" else "infer"
            argv = ["gen", "--name-tpl", case["tpl"], "--input-mapping", src, "--parse", parse, "--emit", case["emit"], "-o", out]
            if case.get("flags"):
                argv += case["flags"]
                ctx["flags"] = ",".join(sorted({f for f in case["flags"] if f.startswith("--")}))
            if case["infer_imports"]:
                argv.append("--emit-and-infer-imports")
            if case["prepend"]:
                argv += ["--prepend", "import json\n"]
            if case["imports_file"]:
                imp = os.path.join(d, "imports_src.py")
                with open(imp, "wt") as f:
                    f.write("from __future__ import annotations\n\nfrom typing import Optional, List\nimport os\nfrom collections import OrderedDict\n")
                argv += ["--imports-from-file", imp]
        existing = case.get("existing")
        if existing:
            with open(out, "wt") as f:
                f.write("KEEP = 1\n" if existing == "content" else "")
            before = open(out, "rb").read()
        try:
            _main(argv)
            raised = None
        except SystemExit as e:
            raised = e
        except Exception as e:
            raised = e
        if existing:
            after = open(out, "rb").read() if os.path.exists(out) else None
            if raised is None:
                v("existing_output_not_refused", "gen refuses (raises)", "completed", existing=existing)
            if after != before:
                v("existing_output_modified", "file left untouched", "changed", existing=existing)
            return dict(outcome="guard", violations=viol)
        if raised is not None:
            v("gen_raises", "a module is written", "%s: %s" % (type(raised).__name__, str(raised)[:120]), exc=type(raised).__name__)
            return dict(outcome="raises", violations=viol)
        if not os.path.isfile(out):
            v("no_output", "output file written", "missing")
            return dict(outcome="no-output", violations=viol)
        text = open(out, "rt").read()
        want = [case["tpl"].format(name=n) for n in names]
        if case["emit"] == "json_schema":
            try:
                doc = json.loads(text)
            except Exception as e:
                v("output_not_json", "valid JSON", "%s" % e)
                return dict(outcome="bad-json", violations=viol)
            schemas = doc.get("schemas", [doc]) if isinstance(doc, dict) else doc
            if len(schemas) != len(names):
                v("schema_count", len(names), len(schemas))
            # "one symbol per entry named by the name template": a schema is named by its $id; and it describes its source entry's parameters
            ids = [sc.get("$id") if isinstance(sc, dict) else None for sc in schemas]
            if sorted(map(str, ids)) != sorted(want):
                v("defined_names_differ", want, ids, missing=",".join(sorted(set(want) - set(map(str, ids)))) or "none", extra=",".join(sorted(set(map(str, ids)) - set(want))) or "none")
            for n in names:
                sc = next((x for x in schemas if isinstance(x, dict) and x.get("$id") == case["tpl"].format(name=n)), None)
                if sc is not None and n in SYMBOLS and sorted(sc.get("properties", {})) != sorted(pn for pn, _ in SYMBOLS[n]):
                    v("schema_properties_differ", sorted(pn for pn, _ in SYMBOLS[n]), sorted(sc.get("properties", {})), symbol_pos=min(names.index(n), 1))
            return dict(outcome="ok" if not viol else "diff", violations=viol, detail=text[:1500])
        try:
            tree = ast.parse(text)
            compile(tree, out, "exec")
        except SyntaxError as e:
            v("output_does_not_compile", "valid Python", "SyntaxError: %s | %s" % (e.msg, (e.text or "").strip()[:100]))
            return dict(outcome="syntax-error", violations=viol, detail=text[:1500])
        defs = defined_names(tree)
        got_names = [n for n, _ in defs]
        if sorted(got_names) != sorted(want):
            v("defined_names_differ", want, got_names, missing=",".join(sorted(set(want) - set(got_names))) or "none", extra=",".join(sorted(set(got_names) - set(want))) or "none")
        allv = get_all(tree)
        if allv is None:
            v("all_missing", want, "no __all__")
        elif allv == "unevaluable" or sorted(allv) != sorted(want):
            v("all_differs", want, allv, dup=isinstance(allv, list) and len(set(allv)) != len(allv))
        # each symbol parsed back has the interface of its source entry
        bynames = dict(defs)
        for n, k in zip(names, kinds):
            node = bynames.get(case["tpl"].format(name=n))
            if node is None:
                continue
            exp = symbol_ir("Alpha" if n == "alphajson" else n)
            if case["emit"].startswith("sqlalchemy"):
                exp = c05.reference(exp, False)
            try:
                back = F.parse_text(case["emit"], F.render(node) if not isinstance(node, ast.Assign) else F.render(node))
            except F.HopError as e:
                v("symbol_unparseable", "parses with the %s parser" % case["emit"], str(e)[:150], exc=type(e.exc).__name__, symbol_pos=names.index(n))
                continue
            c = dict(ctx)
            c.update(clause="symbol_interface", symbol_pos=min(names.index(n), 1))
            rules = dict(RULES[case["emit"]])
            rules["ignore_returns"] = True
            if case["emit"].startswith("sqlalchemy"):
                # parameters whose type is outside the SQL-representable domain (List[..]) are not compared under SQLAlchemy emit kinds
                outside = [pn for pn, pp in exp["params"].items() if pp.get("typ") not in c05.TYPES]
                for ir_ in (exp, back):
                    for pn in outside:
                        ir_["params"].pop(pn, None)
            for x in O.compare(exp, back, rules, c):
                if x["sig"].get("field") != "keys" and not any(y["sig"] == x["sig"] for y in viol):
                    viol.append(x)
        if case.get("infer_imports"):
            imported = imported_names(tree)
            defined = set(got_names)
            star = any(isinstance(st, ast.ImportFrom) and any(a.name == "*" for a in st.names) for st in tree.body)
            used = {n.id for n in ast.walk(tree) if isinstance(n, ast.Name) and isinstance(n.ctx, ast.Load)}
            missing = sorted(u for u in used if (u in TYPING_NAMES or u in SQL_NAMES) and u not in imported and u not in defined)
            if missing and not star:
                v("used_name_not_imported", "every typing/sqlalchemy name imported", missing, names=",".join(missing[:4]))
        return dict(outcome="ok" if not viol else "diff", violations=viol, detail=text[:2500])
    finally:
        shutil.rmtree(d, ignore_errors=True)


def run(case):
    res = core.forked(_run_sql_infer if case["kind"] == "gen_sql_infer" else _run, case)
    viol = res.get("violations", [])
    for x in viol:
        x.setdefault("detail", res.get("detail"))
    return dict(outcome=res["outcome"], transitions=1, violations=viol)


def worker_init(tier, seed):
    O.selfcheck()
    import black  # noqa
    import cdd.__main__  # noqa
    import cdd.compound.gen  # noqa


def describe(tier):
    return dict(
        rule="inputs: 1-3 (thorough: 1-5) symbols of a 5-interface alphabet as classes, functions or argparse functions (homogeneous: --parse explicit and infer; 3 mixed-kind files: "
        "infer) x 8 emit kinds x 2 name templates x {imports off, inferred, --prepend + --imports-from-file, all three}; the non-clobbering guard for every "
        "emit kind with an existing output (with content / empty) x --prepend; a JSON-schema input file into 3 emit kinds; declarative SQLAlchemy models whose base classes are listed in 5 ways (mixins before / after Base, a dotted base) "
        "through --parse infer, compared with --parse sqlalchemy on the plain declaration, x 8 emit kinds; every run in a forked child; "
        "a case = one gen invocation",
        bounds=dict(symbols=list(SYMBOLS), input_kinds=INPUT_KINDS, emits=EMITS, templates=TEMPLATES),
        exhaustive=True,
        assumptions=["symbol interfaces are compared under the C02/C05 normalisations of the emit kind", "generated SQLAlchemy/pydantic code is compiled, never executed"],
    )
