"""
C20 - exmod --dry-run writes nothing; a real run stays inside the output directory.

Exhaustive over small package trees (depth 1..3, complete/partial __all__) x emit kind x --emit-sqlalchemy-submodule x recursive x
blacklist/whitelist subsets x dry-run x output directory pre-existing or not; every run in a forked child with the package placed on
sys.path (no installation).  Oracle: dry run -> recursive snapshot (type, size, mtime, sha256) of the whole scratch root identical and no
write/mkdir/remove audit event; real run -> everything created lies under the output directory, every generated .py compiles and its
__all__ names are defined or imported there, the source package is untouched, filtered modules produce no output.
"""
import ast
import hashlib
import io
import itertools
import os
import shutil
import sys
import tempfile

from mc import core
from mc import effects

PROPERTY = "C20"

CLASS = '''
class {name}(object):
    """
    Settings of the {name} stage

    :cvar label: identifier shown to the user
    :cvar retries: how many times to retry"""

    label: str = "stage"
    retries: int = 3
'''
FUNC = '''
def {name}(label="stage", retries=3):
    """
    Build the default settings

    :param label: identifier shown to the user
    :type label: ```str```

    :param retries: how many times to retry
    :type retries: ```int```

    :return: the pair
    :rtype: ```tuple```
    """
    return label, retries
'''
EMITS = ["class", "function", "argparse", "pydantic", "json_schema", "sqlalchemy", "sqlalchemy_table", "sqlalchemy_hybrid"]
FILTERS = ["none", "blacklist_alpha", "whitelist_alpha", "blacklist_sub"]
# the exposed module is the sub-package c20pkg.sub itself, and the lists name it: in neither / one / both lists
EXPOSED_FILTERS = ["exposed_none", "exposed_blacklisted", "exposed_whitelisted", "exposed_other_whitelisted", "exposed_in_both", "exposed_in_both_and_more", "exposed_whitelisted_other_blacklisted"]
# the exposed module is two levels down (c20pkg.sub.deep): its root package name contains a dot itself
DEEP_EXPOSED_FILTERS = ["deep_exposed_none", "deep_exposed_blacklisted", "deep_exposed_whitelisted", "deep_exposed_other_whitelisted", "deep_exposed_parent_blacklisted"]
PKG = "c20pkg"


def write(filename, content):
    os.makedirs(os.path.dirname(filename), exist_ok=True)
    with open(filename, "wt") as f:
        f.write(content)


CLASS_TYPED = '''
class {name}(object):
    """
    Settings of the {name} stage

    :cvar label: identifier shown to the user
    :cvar timeout: seconds to wait"""

    label: str = "stage"
    timeout: Optional[int] = None
'''


# a declarative SQLAlchemy model whose table name differs from its class name (the ORM convention); stand-ins keep the module importable without sqlalchemy
CLASS_SQL = '''
class {name}(Base):
    """
    Rows of the {name} stage

    :cvar label: identifier shown to the user
    :cvar retries: how many times to retry"""

    __tablename__ = "{name}_rows"

    label = Column(String, primary_key=True, comment="identifier shown to the user")
    retries = Column(Integer, default=3, comment="how many times to retry")
'''
SQL_PREAMBLE = '''try:
    from sqlalchemy import Column, Integer, String
    from sqlalchemy.orm import declarative_base

    Base = declarative_base()
except ImportError:

    class Base(object):
        pass

    def Column(*args, **kwargs):
        return None

    Integer = String = None
'''


def make_package(root, depth, partial_all, layout="direct"):
    global CLASS
    if layout == "sql_model":
        saved, CLASS = CLASS, SQL_PREAMBLE + CLASS_SQL
        try:
            return _make_package(root, depth, partial_all)
        finally:
            CLASS = saved
    if layout == "via_subpackage_typed":
        # the parent re-exports a plain module that sorts before the sub-package and then the sub-package's *own* re-export; attributes use typing names
        saved, CLASS = CLASS, "from typing import Optional\n" + CLASS_TYPED
        try:
            return _make_package(root, depth, partial_all, via_subpackage=True)
        finally:
            CLASS = saved
    return _make_package(root, depth, partial_all)


def _make_package(root, depth, partial_all, via_subpackage=False):
    base = os.path.join(root, PKG)
    exports = ["Alpha"] + (["Beta"] if depth >= 2 else [])
    imports = "from {0}.alpha import Alpha\n".format(PKG) + (("from {0}.sub import Beta\n" if via_subpackage else "from {0}.sub.beta import Beta\n").format(PKG) if depth >= 2 else "")
    write(os.path.join(base, "__init__.py"), '"""{0}"""\n\n{1}\n__all__ = {2!r}\n'.format(PKG, imports, exports))
    write(os.path.join(base, "alpha.py"), '"""alpha"""\n{cls}\n{func}\n__all__ = {all_!r}\n'.format(
        cls=CLASS.format(name="Alpha"), func=FUNC.format(name="make_alpha"), all_=["Alpha"] if partial_all else ["Alpha", "make_alpha"]))
    if depth >= 2:
        sub_exports = ["Beta"] + (["Gamma"] if depth >= 3 else [])
        sub_imports = "from {0}.sub.beta import Beta\n".format(PKG) + ("from {0}.sub.deep.gamma import Gamma\n".format(PKG) if depth >= 3 else "")
        write(os.path.join(base, "sub", "__init__.py"), '"""sub"""\n\n{0}\n__all__ = {1!r}\n'.format(sub_imports, sub_exports))
        write(os.path.join(base, "sub", "beta.py"), '"""beta"""\n{cls}\n__all__ = ["Beta"]\n'.format(cls=CLASS.format(name="Beta")))
    if depth >= 3:
        write(os.path.join(base, "sub", "deep", "__init__.py"), '"""deep"""\n\nfrom {0}.sub.deep.gamma import Gamma\n\n__all__ = ["Gamma"]\n'.format(PKG))
        write(os.path.join(base, "sub", "deep", "gamma.py"), '"""gamma"""\n{cls}\n__all__ = ["Gamma"]\n'.format(cls=CLASS.format(name="Gamma")))
    return base


def snapshot(root):
    res = {}
    for dirpath, dirnames, filenames in os.walk(root):
        dirnames[:] = sorted(d for d in dirnames if d != "__pycache__")
        st = os.lstat(dirpath)
        res[os.path.relpath(dirpath, root) + os.sep] = ("dir",)
        for fn in sorted(filenames):
            full = os.path.join(dirpath, fn)
            st = os.lstat(full)
            with open(full, "rb") as f:
                digest = hashlib.sha256(f.read()).hexdigest()[:16]
            res[os.path.relpath(full, root)] = ("file", st.st_size, st.st_mtime_ns, digest)
    return res


def cases(tier, seed):
    for depth, emit, recursive, flt, dry in itertools.product((2, 3), EMITS if tier != "quick" else ("class", "function", "sqlalchemy"), (False, True), EXPOSED_FILTERS, (False, True)):
        yield dict(depth=depth, partial_all=False, emit=emit, recursive=recursive, filter=flt, dry_run=dry, out_exists=False, sqlalchemy_submodule=False)
        if depth == 3 and (tier != "quick" or emit == "class"):
            # the same with the output directory named like the target module (the layout the repository's own tests use)
            yield dict(depth=depth, partial_all=False, emit=emit, recursive=recursive, filter=flt, dry_run=dry, out_exists=False, sqlalchemy_submodule=False, out_is_target=True)
    for emit, recursive, flt, dry in itertools.product(EMITS if tier != "quick" else ("class", "function", "sqlalchemy"), (False, True), DEEP_EXPOSED_FILTERS, (False, True)):
        yield dict(depth=3, partial_all=False, emit=emit, recursive=recursive, filter=flt, dry_run=dry, out_exists=False, sqlalchemy_submodule=False)
    for depth, emit, recursive, flt, dry in itertools.product((2, 3), ("class", "sqlalchemy") if tier == "quick" else EMITS, (False, True), ("none", "blacklist_alpha", "blacklist_sub"), (False, True)):
        if not (flt == "blacklist_sub" and depth < 2):
            yield dict(depth=depth, partial_all=False, emit=emit, recursive=recursive, filter=flt, dry_run=dry, out_exists=False, sqlalchemy_submodule=False, out_is_target=True)
    # another package layout: re-export through the sub-package's own __init__, classes with typing annotations
    for depth, emit, recursive, dry in itertools.product((2, 3), EMITS if tier != "quick" else ("class", "function", "sqlalchemy", "pydantic"), (False, True), (False, True)):
        yield dict(depth=depth, partial_all=False, emit=emit, recursive=recursive, filter="none", dry_run=dry, out_exists=False, sqlalchemy_submodule=False, layout="via_subpackage_typed")
    # modules whose class is a declarative SQLAlchemy model with a table name of its own
    for depth, emit, recursive, dry in itertools.product((1, 2), EMITS if tier != "quick" else ("class", "function", "sqlalchemy", "pydantic", "sqlalchemy_table"), (False, True), (False, True)):
        yield dict(depth=depth, partial_all=False, emit=emit, recursive=recursive, filter="none", dry_run=dry, out_exists=False, sqlalchemy_submodule=False, layout="sql_model")
    # further options of the command: --target-module-name, --no-word-wrap, --extra-module
    for depth, emit, recursive, dry, flags in itertools.product((1, 2), ("class", "function", "sqlalchemy") if tier == "quick" else EMITS, (False, True), (False, True),
                                                               (["--target-module-name", "renamed_out"], ["--no-word-wrap"], ["--extra-module", "json"], ["--target-module-name", "renamed_out", "--no-word-wrap", "--extra-module", "json"])):
        yield dict(depth=depth, partial_all=False, emit=emit, recursive=recursive, filter="none", dry_run=dry, out_exists=False, sqlalchemy_submodule=False, flags=flags)
    depths = (1, 2, 3)
    for depth, partial_all, emit, recursive, flt, dry, out_exists in itertools.product(depths, (False, True), EMITS, (False, True), FILTERS, (True, False), (False, True)):
        if flt == "blacklist_sub" and depth < 2:
            continue
        if tier == "quick" and (partial_all and emit not in ("class", "sqlalchemy")):
            continue
        if tier == "quick" and depth == 3 and flt in ("blacklist_alpha", "whitelist_alpha"):
            continue
        if tier == "quick" and not dry and out_exists and not emit.startswith("sqlalchemy"):
            continue  # a pre-existing output directory matters for dry runs and the SQLAlchemy submodule; thorough runs the full product
        subs = (False, True) if emit.startswith("sqlalchemy") else (False,)
        for sub in subs:
            yield dict(depth=depth, partial_all=partial_all, emit=emit, recursive=recursive, filter=flt, dry_run=dry, out_exists=out_exists, sqlalchemy_submodule=sub)
            if dry and out_exists and flt == "none" and not partial_all:
                # the output directory as a previous real run with the same options left it
                yield dict(depth=depth, partial_all=partial_all, emit=emit, recursive=recursive, filter=flt, dry_run=dry, out_exists="populated", sqlalchemy_submodule=sub)


def _run(case):
    root = os.path.realpath(tempfile.mkdtemp(prefix="c20_"))
    viol = []
    ctx = dict(check="exmod", emit=case["emit"], dry_run=case["dry_run"], recursive=case["recursive"], filter=case["filter"], out_exists=case["out_exists"], **(dict(out_is_target=True) if case.get("out_is_target") else {}),
               sqlalchemy_submodule=case["sqlalchemy_submodule"], depth=case["depth"], partial_all=case["partial_all"])
    if case.get("layout") and case["layout"] != "direct":
        ctx["layout"] = case["layout"]

    def v(clause, expected, observed, **extra):
        sig = dict(ctx)
        sig.update(clause=clause)
        sig.update(extra)
        if not any(x["sig"] == sig for x in viol):
            viol.append(dict(sig=sig, expected=expected, observed=observed))

    try:
        sys.path.insert(0, root)
        make_package(root, case["depth"], case["partial_all"], case.get("layout", "direct"))
        work = os.path.join(root, "work")
        os.makedirs(work)
        os.makedirs(os.path.join(root, "decoy_sibling"))
        write(os.path.join(root, "decoy_sibling", "keep.txt"), "keep\n")
        out = os.path.join(work, "gold" if case.get("out_is_target") else "out")  # "gold": the output directory is named like --target-module-name
        if case["out_exists"]:
            os.makedirs(out)
        os.chdir(work)
        import cdd.__main__
        import cdd.compound.exmod_utils

        cdd.compound.exmod_utils.EXMOD_OUT_STREAM = io.StringIO()
        argv = ["exmod", "-m", PKG, "--emit", case["emit"], "-o", out]
        if case["recursive"]:
            argv.append("--recursive")
        if case["dry_run"]:
            argv.append("--dry-run")
        if case["sqlalchemy_submodule"]:
            argv.append("--emit-sqlalchemy-submodule")
        if case.get("flags"):
            argv += case["flags"]
        if case.get("out_is_target"):
            argv += ["--target-module-name", "gold"]
        if case["filter"] == "blacklist_alpha":
            argv += ["--blacklist", PKG + ".alpha"]
        elif case["filter"] == "whitelist_alpha":
            argv += ["--whitelist", PKG + ".alpha"]
        elif case["filter"] == "blacklist_sub":
            argv += ["--blacklist", PKG + ".sub"]
        sub = PKG + ".sub"
        if case["filter"] in EXPOSED_FILTERS:
            argv[2] = sub  # -m c20pkg.sub
            argv += {"exposed_none": [], "exposed_blacklisted": ["--blacklist", sub], "exposed_whitelisted": ["--whitelist", sub], "exposed_other_whitelisted": ["--whitelist", PKG + ".other"],
                     "exposed_in_both": ["--blacklist", sub, "--whitelist", sub], "exposed_in_both_and_more": ["--blacklist", sub, "--blacklist", PKG + ".zzz", "--whitelist", PKG + ".other", "--whitelist", sub],
                     "exposed_whitelisted_other_blacklisted": ["--blacklist", PKG + ".zzz", "--whitelist", sub]}[case["filter"]]
        deep = PKG + ".sub.deep"
        if case["filter"] in DEEP_EXPOSED_FILTERS:
            argv[2] = deep  # -m c20pkg.sub.deep
            argv += {"deep_exposed_none": [], "deep_exposed_blacklisted": ["--blacklist", deep], "deep_exposed_whitelisted": ["--whitelist", deep], "deep_exposed_other_whitelisted": ["--whitelist", PKG + ".sub.other"],
                     "deep_exposed_parent_blacklisted": ["--blacklist", sub]}[case["filter"]]
        from contextlib import redirect_stderr, redirect_stdout

        if case["out_exists"] == "populated":
            try:
                with redirect_stdout(io.StringIO()), redirect_stderr(io.StringIO()):
                    cdd.__main__.main([a for a in argv if a != "--dry-run"])
            except BaseException:  # noqa
                pass
        before = snapshot(root)
        raised = None

        with effects.Recording() as ev:
            try:
                with redirect_stdout(io.StringIO()), redirect_stderr(io.StringIO()):
                    cdd.__main__.main(argv)
            except SystemExit as e:
                raised = e
            except Exception as e:
                raised = e
        events = list(ev)
        after = snapshot(root)
        out_rel = os.path.relpath(out, root) + os.sep
        created = sorted(k for k in after if k not in before)
        deleted = sorted(k for k in before if k not in after)
        modified = sorted(k for k in before if k in after and before[k] != after[k])
        if raised is not None:
            v("exmod_raises", "exmod completes", "%s: %s" % (type(raised).__name__, str(raised)[:140]), exc=type(raised).__name__)
        if case["dry_run"]:
            if created or deleted or modified:
                v("dry_run_changed_filesystem", "nothing created, modified or deleted", dict(created=created[:5], deleted=deleted[:5], modified=modified[:5]),
                  what=",".join(x for x, y in (("created", created), ("deleted", deleted), ("modified", modified)) if y), first=(created + deleted + modified)[0].replace(out_rel, "<out>/"))
            for e in events:
                if e[0] == "open" and effects.is_write_mode(e[2], e[3]) and isinstance(e[1], (str, bytes)) and os.fsdecode(e[1]) != os.devnull:
                    v("dry_run_write_event", "no write-mode open", "open(%r, %r)" % (os.path.relpath(os.fsdecode(e[1]), root) if os.fsdecode(e[1]).startswith(root) else os.fsdecode(e[1]), e[2]))
                elif e[0] in effects.FS_EVENTS:
                    v("dry_run_fs_event", "no mkdir/rename/remove", "%s %s" % (e[0], e[1]), event=e[0])
        else:
            outside = [k for k in created if not (k + ("" if k.endswith(os.sep) else "")).startswith(out_rel) and k != out_rel and not out_rel.startswith(k)]
            if outside:
                v("created_outside_output_dir", "everything created lies under the output directory", outside[:5], where="source_package" if any(k.startswith(PKG + os.sep) for k in outside) else "elsewhere")
            src_changed = [k for k in modified + deleted if k.startswith(PKG + os.sep)]
            if src_changed:
                v("source_package_modified", "source package untouched", src_changed[:5])
            other_changed = [k for k in modified + deleted if not k.startswith(PKG + os.sep) and not k.startswith(out_rel)]
            if other_changed:
                v("other_files_modified", "nothing outside the output directory changes", other_changed[:5])
            if raised is None:
                gen_py = [k for k in after if k.startswith(out_rel) and k.endswith(".py")]
                for k in gen_py:
                    full = os.path.join(root, k)
                    text = open(full, "rt").read()
                    try:
                        tree = ast.parse(text)
                    except SyntaxError as e:
                        v("generated_file_not_python", "valid Python", "%s: SyntaxError %s" % (k.replace(out_rel, ""), e.msg), file=os.path.basename(k))
                        continue
                    allv = None
                    for st in tree.body:
                        if isinstance(st, ast.Assign) and any(isinstance(t, ast.Name) and t.id == "__all__" for t in st.targets):
                            try:
                                allv = list(ast.literal_eval(st.value))
                            except Exception:
                                allv = None
                    if allv:
                        bound = set()
                        for st in ast.walk(tree):
                            if isinstance(st, (ast.FunctionDef, ast.ClassDef, ast.AsyncFunctionDef)):
                                bound.add(st.name)
                            elif isinstance(st, ast.Assign):
                                bound.update(t.id for t in st.targets if isinstance(t, ast.Name))
                            elif isinstance(st, ast.AnnAssign) and isinstance(st.target, ast.Name):
                                bound.add(st.target.id)
                            elif isinstance(st, (ast.Import, ast.ImportFrom)):
                                bound.update((a.asname or a.name).split(".")[0] for a in st.names)
                        missing = sorted(set(allv) - bound)
                        if missing:
                            v("all_names_unbound", "__all__ names defined or imported", "%s: %s" % (k.replace(out_rel, ""), missing), file=os.path.basename(k))
                # filtered modules produce no output
                gen_names = [k.replace(out_rel, "") for k in after if k.startswith(out_rel) and not k.endswith(os.sep)]
                if case["filter"] == "blacklist_alpha" and any(os.path.basename(g) == "alpha.py" for g in gen_names):
                    v("filtered_module_emitted", "no output for blacklisted %s.alpha" % PKG, [g for g in gen_names if "alpha" in g])
                if case["filter"] == "blacklist_sub" and any(g.split(os.sep)[0] == "sub" or (os.sep + "sub" + os.sep) in (os.sep + g) for g in gen_names):
                    v("filtered_module_emitted", "no output for blacklisted %s.sub" % PKG, [g for g in gen_names if "sub" in g][:4])
                if case["filter"] == "whitelist_alpha" and any(os.path.basename(g) in ("beta.py", "gamma.py") for g in gen_names):
                    v("filtered_module_emitted", "only whitelisted %s.alpha" % PKG, [g for g in gen_names if "beta" in g or "gamma" in g])
                # (a recursive run also visits c20pkg.sub.deep, which is a module of its own and named in no list: only the exposed module's own output counts)
                own = sorted(g for g in gen_names if g.endswith(".py") and not g.startswith("deep" + os.sep))
                if case["filter"] in ("exposed_blacklisted", "exposed_in_both", "exposed_in_both_and_more", "exposed_other_whitelisted") and own:
                    v("filtered_module_emitted", "no output: the exposed module %s.sub is blacklisted (or not in the whitelist)" % PKG, own[:6])
                if case["filter"] in ("deep_exposed_blacklisted", "deep_exposed_other_whitelisted") and [g for g in gen_names if g.endswith(".py")]:
                    v("filtered_module_emitted", "no output: the exposed module %s.sub.deep is blacklisted (or not in the whitelist)" % PKG, sorted(g for g in gen_names if g.endswith(".py"))[:6])
                if case["filter"] in ("none", "exposed_none", "exposed_whitelisted", "exposed_whitelisted_other_blacklisted", "deep_exposed_none", "deep_exposed_whitelisted") and not gen_py:
                    v("nothing_generated", "generated modules under the output directory", "none")
        return dict(outcome=("raises" if raised is not None else "ok") + ("+diff" if viol else ""), violations=viol, n_created=len(created))
    finally:
        os.chdir("/")
        shutil.rmtree(root, ignore_errors=True)


def run(case):
    res = core.forked(_run, case)
    return dict(outcome=res["outcome"], transitions=1, violations=res["violations"], extra=dict(max_created=res.get("n_created", 0)))


def worker_init(tier, seed):
    effects.install()
    import black  # noqa
    import cdd.__main__  # noqa
    import cdd.compound.exmod  # noqa


def describe(tier):
    return dict(
        rule="package trees of depth 1..3 (modules with a class and a function, re-exported through __init__/__all__, complete or partial __all__) placed on sys.path x "
        "8 emit kinds x --emit-sqlalchemy-submodule (SQLAlchemy kinds) x recursive x {no filter, blacklist alpha, whitelist alpha, blacklist sub-package, and, exposing the sub-package, that module named in neither / one / both lists; exposing the sub-sub-package c20pkg.sub.deep, that module (or its parent) named in a list or not} x dry-run x "
        "output directory pre-existing or not; every run in a forked child, cwd inside the scratch root, a decoy sibling directory next to it; a case = one exmod invocation",
        bounds=dict(depths=[1, 2, 3], emits=EMITS, filters=FILTERS),
        exhaustive=True,
        assumptions=["sys.dont_write_bytecode is on: the interpreter's bytecode cache is configuration, not an action of exmod", "the package is found through sys.path (no pip install)",
                     "quick tier thins the partial-__all__ and depth-3 x filter combinations; thorough runs the full product"],
    )
