"""Command line: ./check C09 --tier quick"""
import argparse
import os
import sys


def main(argv=None):
    ap = argparse.ArgumentParser()
    ap.add_argument("property")
    ap.add_argument("--tier", default=os.environ.get("VERIF_TIER", "quick"), choices=("quick", "thorough"))
    ap.add_argument("--replay")
    ap.add_argument("--jobs", type=int)
    ap.add_argument("--limit", type=int)
    ap.add_argument("--list-sigs", action="store_true")
    ap.add_argument("--opt", action="append", default=[], help="key=value passed to the check's configure()")
    args = ap.parse_args(argv)
    from mc import core

    modname = "mc.checks." + args.property.lower()
    try:
        seed = int(os.environ.get("VERIF_SEED", "0"))
    except ValueError:
        seed = 0
    if args.replay:
        return core.replay(modname, args.replay)
    options = dict(o.split("=", 1) for o in args.opt)
    return core.explore(modname, args.tier, seed, jobs=args.jobs, limit=args.limit, options=options, list_sigs=args.list_sigs)


if __name__ == "__main__":
    sys.exit(main())
