"""
Explorer core: deterministic case enumeration, sharded execution of the real implementation,
violation signatures, known-finding matching, replay files and evidence.

A check module (mc/checks/cXX.py) provides:

    PROPERTY = "C09"
    def cases(tier, seed) -> iterator of JSON-able cases        (deterministic, simplest first)
    def run(case) -> dict(outcome=str, transitions=int, states=[hashable...]?, violations=[...])
    def describe(tier) -> dict(rule=..., bounds=..., assumptions=[...], exhaustive=bool)

A violation is a dict: {"sig": {...small stable features...}, "expected": ..., "observed": ..., "detail": ...}
`sig` must contain "check" (which oracle clause fired).
"""

import hashlib
import json
import multiprocessing
import os
import sys
import time
import traceback
from collections import Counter

VERIF = os.path.dirname(os.path.dirname(os.path.abspath(__file__)))
DEPS = os.path.join(VERIF, ".deps")


def add_deps():
    """jsonschema / networkx live in /verif/.deps; appended LAST so nothing of /venv is shadowed"""
    if DEPS not in sys.path:
        sys.path.append(DEPS)


def scrub_env():
    """Own the configuration the library reads from the environment"""
    keep = set(filter(None, os.environ.get("VERIF_KEEP_ENV", "").split(",")))  # set only by run_cases_in_env for its child interpreter
    for k in ("DOCTRANS_LINE_LENGTH", "DOCTRANS_TAB", "FORCE_PK_ID", "EXMOD_OUT_STREAM"):
        if k not in keep:
            os.environ.pop(k, None)
    sys.dont_write_bytecode = True


def run_cases_in_env(modname, cases, env, tier="quick", seed=0, timeout=3600):
    """Run cases of a check module in a fresh interpreter with extra environment variables: the library reads some of its configuration
    (wrap width, tab, FORCE_PK_ID) into module constants at import time, so another value needs another interpreter. -> list of run() results"""
    import subprocess

    e = dict(os.environ, PYTHONDONTWRITEBYTECODE="1", VERIF_KEEP_ENV=",".join(env))
    e.update(env)
    p = subprocess.run([sys.executable, "-B", "-m", "mc.envchild", modname, tier, str(seed)], input=json.dumps(cases, default=repr).encode(), cwd=VERIF, env=e,
                       stdout=subprocess.PIPE, stderr=subprocess.PIPE, timeout=timeout)
    if p.returncode != 0 or not p.stdout:
        raise RuntimeError("env child failed: rc=%s %s" % (p.returncode, p.stderr.decode()[-800:]))
    return json.loads(p.stdout.decode())


def jdump(o):
    return json.dumps(o, sort_keys=True, default=repr, ensure_ascii=True)


def sig_key(sig):
    return jdump(sig)


def case_sha(case):
    return hashlib.sha256(jdump(case).encode()).hexdigest()[:16]


# ----------------------------------------------------------------------------- known findings


def load_findings(prop):
    path = os.path.join(VERIF, "known_findings.json")
    if not os.path.isfile(path):
        return []
    with open(path) as f:
        doc = json.load(f)
    return [e for e in doc.get("findings", []) if e.get("property") == prop]


def pattern_matches(pattern, sig):
    for k, want in pattern.items():
        if k not in sig:
            return False
        have = sig[k]
        if isinstance(want, dict) and "in" in want:
            if have not in want["in"]:
                return False
        elif isinstance(want, dict) and "prefix" in want:
            if not (isinstance(have, str) and have.startswith(want["prefix"])):
                return False
        elif have != want:
            return False
    return True


def match_finding(findings, sig):
    for f in findings:
        if pattern_matches(f["pattern"], sig):
            return f
    return None


# ----------------------------------------------------------------------------- worker


class WorkerSummary:
    def __init__(self):
        self.evaluations = 0
        self.transitions = 0
        self.outcomes = Counter()
        self.states = set()
        self.nontrivial = 0
        self.viol = {}  # sig_key -> {"sig","count","first_idx","example"}
        self.samples = []
        self.extra = {}
        self.caps = []

    def to_dict(self):
        return dict(
            evaluations=self.evaluations,
            transitions=self.transitions,
            outcomes=dict(self.outcomes),
            states=list(self.states),
            nontrivial=self.nontrivial,
            viol=self.viol,
            samples=self.samples,
            extra=self.extra,
            caps=self.caps,
        )


def run_one(mod, case):
    """Run the real code on one case; an escaping exception is itself an observation"""
    try:
        res = mod.run(case)
    except BaseException as e:  # noqa
        if isinstance(e, KeyboardInterrupt):
            raise
        tb = traceback.format_exc()
        res = dict(
            outcome="harness-exception:" + type(e).__name__,
            transitions=1,
            violations=[
                dict(
                    sig=dict(check="uncaught_exception", exc=type(e).__name__),
                    expected="the case runs",
                    observed=repr(e)[:300],
                    detail=tb[-1500:],
                )
            ],
        )
    return res


def _worker(args):
    modname, tier, seed, shard, nshards, limit, options = args
    scrub_env()
    add_deps()
    if not os.environ.get("VERIF_WORKER_OUTPUT"):
        # the library prints diagnostics (print(e, file=sys.stderr), "Generating: ..."); workers report through return values only
        sys.stdout = sys.stderr = open(os.devnull, "w")
    import importlib

    from mc import cov

    cov.start()  # development aid, only with VERIF_COV=<dir>
    mod = importlib.import_module(modname)
    if hasattr(mod, "configure"):
        mod.configure(options)
    if hasattr(mod, "worker_init"):
        mod.worker_init(tier, seed)
    s = WorkerSummary()
    sample_every = None
    t0 = time.time()
    for idx, case in enumerate(mod.cases(tier, seed)):
        if limit is not None and idx >= limit:
            break
        if idx % nshards != shard:
            continue
        res = run_one(mod, case)
        nev = int(res.get("evaluations", 1))
        s.evaluations += nev
        s.transitions += int(res.get("transitions", 1))
        s.outcomes[res.get("outcome", "ok")] += 1
        if res.get("nontrivial", True):
            s.nontrivial += nev if res.get("nontrivial", True) is True else int(res["nontrivial"])
        for st in res.get("states", ()):  # canonical state hashes
            s.states.add(st)
        if "states" not in res:
            if getattr(mod, "STATE_IS_CASE", False):
                s.extra["n_case_states"] = s.extra.get("n_case_states", 0) + 1
            else:
                s.states.add(case_sha(case))
        for k, v in res.get("extra", {}).items():
            # extra: numeric maxima / counters merged by max or sum depending on prefix
            if k.startswith("max_"):
                s.extra[k] = max(s.extra.get(k, v), v)
            elif k.startswith("set_"):
                s.extra.setdefault(k, set()).update(v)
            else:
                s.extra[k] = s.extra.get(k, 0) + v
        if len(s.samples) < 3 and (idx // nshards) % 97 == (seed % 97 if seed else 0):
            s.samples.append(dict(case=case, outcome=res.get("outcome", "ok")))
        for v in res.get("violations", ()):
            k = sig_key(v["sig"])
            ent = s.viol.get(k)
            if ent is None:
                s.viol[k] = dict(
                    sig=v["sig"],
                    count=1,
                    first_idx=idx,
                    example=dict(
                        case=v.get("case", case),
                        expected=v.get("expected"),
                        observed=v.get("observed"),
                        detail=v.get("detail"),
                    ),
                )
            else:
                ent["count"] += 1
    d = s.to_dict()
    for k, v in list(d["extra"].items()):
        if isinstance(v, set):
            d["extra"][k] = sorted(v, key=repr)
    d["wall"] = time.time() - t0
    cov.dump()
    return d


def _merge(summaries):
    tot = dict(
        evaluations=0, transitions=0, outcomes=Counter(), states=set(), nontrivial=0, viol={}, samples=[], extra={}, caps=[]
    )
    for d in summaries:
        tot["evaluations"] += d["evaluations"]
        tot["transitions"] += d["transitions"]
        tot["outcomes"].update(d["outcomes"])
        tot["states"].update(d["states"])
        tot["nontrivial"] += d["nontrivial"]
        tot["samples"].extend(d["samples"])
        tot["caps"].extend(d["caps"])
        for k, v in d["extra"].items():
            if k.startswith("max_"):
                tot["extra"][k] = max(tot["extra"].get(k, v), v)
            elif k.startswith("set_"):
                tot["extra"].setdefault(k, set()).update(map(lambda x: tuple(x) if isinstance(x, list) else x, v))
            else:
                tot["extra"][k] = tot["extra"].get(k, 0) + v
        for k, ent in d["viol"].items():
            cur = tot["viol"].get(k)
            if cur is None:
                tot["viol"][k] = dict(ent)
            else:
                cur["count"] += ent["count"]
                if ent["first_idx"] < cur["first_idx"]:
                    cur["first_idx"] = ent["first_idx"]
                    cur["example"] = ent["example"]
    return tot


# ----------------------------------------------------------------------------- replay


def _standalone(modname, case):
    """a plain script (only cdd imports) that replays the case without the explorer, when the check module can render one"""
    try:
        import importlib

        mod = importlib.import_module(modname)
        if hasattr(mod, "standalone"):
            return mod.standalone(case)
    except Exception as e:  # noqa
        return "# (no stand-alone script: %s)" % e
    return None


def write_replay(prop, modname, sig, example):
    d = os.path.join(VERIF, "replays", prop)
    os.makedirs(d, exist_ok=True)
    name = hashlib.sha256((sig_key(sig) + jdump(example["case"])).encode()).hexdigest()[:16]
    path = os.path.join(d, name + ".json")
    with open(path, "w") as f:
        json.dump(
            dict(
                property=prop,
                module=modname,
                signature=sig,
                case=example["case"],
                history=example.get("history"),
                expected=example.get("expected"),
                observed=example.get("observed"),
                detail=example.get("detail"),
                how_to_replay="cd /verif && ./check {} --replay {}".format(prop, path),
                standalone_script=_standalone(modname, example["case"]),
            ),
            f,
            indent=1,
            default=repr,
            sort_keys=True,
        )
    return path


def _replay_child(args):
    modname, case, options = args
    scrub_env()
    add_deps()
    if not os.environ.get("VERIF_WORKER_OUTPUT"):
        sys.stdout = sys.stderr = open(os.devnull, "w")
    import importlib

    mod = importlib.import_module(modname)
    if hasattr(mod, "configure"):
        mod.configure(options)
    if hasattr(mod, "worker_init"):
        mod.worker_init("quick", 0)
    res = run_one(mod, case)
    return [dict(sig=v["sig"], expected=v.get("expected"), observed=v.get("observed"), detail=v.get("detail")) for v in res.get("violations", ())]


def _replay_history_child(args):
    """the cases one worker ran before (and including) case number `upto`, in the same order, in a fresh process; -> violations of that last case"""
    modname, tier, seed, shard, nshards, upto, options = args
    scrub_env()
    add_deps()
    if not os.environ.get("VERIF_WORKER_OUTPUT"):
        sys.stdout = sys.stderr = open(os.devnull, "w")
    import importlib

    mod = importlib.import_module(modname)
    if hasattr(mod, "configure"):
        mod.configure(options)
    if hasattr(mod, "worker_init"):
        mod.worker_init(tier, seed)
    res = {}
    for idx, case in enumerate(mod.cases(tier, seed)):
        if idx > upto:
            break
        if idx % nshards != shard:
            continue
        res = run_one(mod, case)
    return [dict(sig=v["sig"], expected=v.get("expected"), observed=v.get("observed"), detail=v.get("detail")) for v in res.get("violations", ())]


def rerun_history(modname, history, options=None):
    """Re-execute a worker's case sequence up to one case in a fresh (spawned) process: for violations that depend on what ran before"""
    ctx = multiprocessing.get_context("spawn")
    with ctx.Pool(1) as p:
        return p.apply(_replay_history_child, ((modname, history["tier"], history["seed"], history["shard"], history["nshards"], history["upto"], options or {}),))


def rerun_fresh(modname, case, options=None):
    """Re-execute one case in a fresh process (spawned, so no inherited module state)"""
    ctx = multiprocessing.get_context("spawn")
    with ctx.Pool(1) as p:
        return p.apply(_replay_child, ((modname, case, options or {}),))


def env_label(env):
    return ",".join("%s=%s" % (k.replace("DOCTRANS_", "").lower(), v) for k, v in sorted(env.items()))


def run_env_block(modname, sub_cases, env, env_index):
    """run() result for a block of a check's own cases executed under `env` in a child interpreter; every signature gets an `env` key and
    every violating case an `env` index, so that a replay goes through run_env_case"""
    results = run_cases_in_env(modname, sub_cases, env)
    viol, tr, ev, outcomes = [], 0, 0, set()
    for r in results:
        tr += r["transitions"]
        ev += r["evaluations"]
        outcomes.add(r["outcome"])
        for v in r["violations"]:
            v["sig"]["env"] = env_label(env)
            v["case"] = dict(v["case"], env=env_index)
            viol.append(v)
    return dict(outcome=("env:" + "+".join(sorted(outcomes)))[:60], transitions=tr, evaluations=ev, violations=viol, extra=dict(n_case_states=max(len(sub_cases), 1) - 1))


def run_env_case(modname, case, envs):
    """replay of one case that carries an `env` index: again in a child interpreter with that environment"""
    sub = dict(case)
    env = envs[sub.pop("env")]
    r = run_cases_in_env(modname, [sub], env)[0]
    for v in r["violations"]:
        v["sig"]["env"] = env_label(env)
    return dict(outcome=r["outcome"], transitions=r["transitions"], evaluations=r["evaluations"], violations=r["violations"])


# ----------------------------------------------------------------------------- driver


def explore(modname, tier, seed, jobs=None, limit=None, options=None, list_sigs=False, quiet=False):
    scrub_env()
    add_deps()
    import importlib

    t0 = time.time()
    mod = importlib.import_module(modname)
    prop = mod.PROPERTY
    options = options or {}
    jobs = jobs or int(os.environ.get("VERIF_JOBS", 0)) or min(16, os.cpu_count() or 1)
    jobs = max(1, min(jobs, getattr(mod, "MAX_JOBS", jobs)))
    ctx = multiprocessing.get_context(getattr(mod, "MP_CONTEXT", "fork"))
    args = [(modname, tier, seed, i, jobs, limit, options) for i in range(jobs)]
    backstop = getattr(mod, "BACKSTOP_S", {"quick": 1500, "thorough": 6 * 3600})[tier]
    hung = False
    if jobs == 1:
        summaries = [_worker(args[0])]
    else:
        pool = ctx.Pool(jobs, maxtasksperchild=1)  # one process per shard: a worker's history is exactly its shard's case sequence
        try:
            r = pool.map_async(_worker, args, chunksize=1)
            summaries = r.get(timeout=backstop)
            pool.close()
        except multiprocessing.TimeoutError:
            hung = True
            summaries = []
            pool.terminate()
        finally:
            pool.join()
    tot = _merge(summaries)
    findings = load_findings(prop)
    matched = {}  # finding id -> count
    unmatched = []
    for k, ent in sorted(tot["viol"].items(), key=lambda kv: kv[1]["first_idx"]):
        f = match_finding(findings, ent["sig"])
        if f is None:
            unmatched.append(ent)
        else:
            m = matched.setdefault(f["id"], dict(finding=f, cases=0, sigs=0))
            m["cases"] += ent["count"]
            m["sigs"] += 1
    if os.environ.get("VERIF_DUMP_SIGS"):
        with open(os.environ["VERIF_DUMP_SIGS"], "w") as f:
            json.dump([dict(sig=e["sig"], count=e["count"], example=e["example"], known=(match_finding(findings, e["sig"]) or {}).get("id")) for e in tot["viol"].values()], f, default=repr)
    if list_sigs:
        for ent in sorted(tot["viol"].values(), key=lambda e: -e["count"]):
            f = match_finding(findings, ent["sig"])
            print(("KNOWN " + f["id"] if f else "NEW  ") + " n=%d " % ent["count"] + jdump(ent["sig"]))
            if not f:
                print("     e.g. case=" + jdump(ent["example"]["case"])[:600])
                print("     expected=" + str(ent["example"].get("expected"))[:300])
                print("     observed=" + str(ent["example"].get("observed"))[:300])
    exit_code = 0
    lines = []
    for fid, m in sorted(matched.items()):
        lines.append(
            "KNOWN-FINDING: property={} {} {} (cases={})".format(prop, fid, m["finding"].get("what", ""), m["cases"])
        )
    reported = []
    nonrepro = []
    deferred, hist_budget, hist_confirmed = [], 2, 0
    for ent in unmatched:
        # reproduce in a fresh process before reporting (cap: first 40 signatures; the rest are listed unreproduced)
        if len(reported) < (int(os.environ.get("VERIF_MAX_REPORT", 0)) or getattr(mod, "MAX_REPORT", 25)):  # (sweeps over stored changes lower the cap: they only need the verdict)
            if getattr(mod, "REPRODUCE", True):
                again = rerun_fresh(modname, ent["example"]["case"], options)
                if sig_key(ent["sig"]) not in {sig_key(v["sig"]) for v in again}:
                    # not a property of this one input: does it depend on what the same worker ran before it (state kept by the library)?
                    history = dict(tier=tier, seed=seed, shard=ent["first_idx"] % jobs, nshards=jobs, upto=ent["first_idx"])
                    if hist_budget <= 0 or limit is not None:
                        deferred.append(ent)  # a history replay re-runs up to a whole shard: only the first two are replayed
                        continue
                    hist_budget -= 1
                    again_h = rerun_history(modname, history, options)
                    if sig_key(ent["sig"]) not in {sig_key(v["sig"]) for v in again_h}:
                        nonrepro.append(ent)
                        continue
                    ent["example"]["history"] = history
                    hist_confirmed += 1
            path = write_replay(prop, modname, ent["sig"], ent["example"])
            reported.append((ent, path))
    for ent, path in reported:
        lines.append("VIOLATION property={} replay={}".format(prop, path))
        if not quiet:
            lines.append("  signature: " + jdump(ent["sig"]) + " cases=%d" % ent["count"])
            if ent["example"].get("history"):
                lines.append("  history-dependent: the input alone does not show it in a fresh process; it reproduces after the %d cases the same worker ran before it (replay re-runs them)" % (ent["example"]["history"]["upto"] // ent["example"]["history"]["nshards"]))
            lines.append("  expected:  " + str(ent["example"].get("expected"))[:400])
            lines.append("  observed:  " + str(ent["example"].get("observed"))[:400])
    if deferred and hist_confirmed:
        lines.append("  (+%d further signatures that do not reproduce from their input alone; like the %d above they are taken to be history-dependent, not individually replayed)" % (len(deferred), hist_confirmed))
    elif deferred:
        nonrepro.extend(deferred)
    if len(unmatched) > len(reported) + len(nonrepro) + (len(deferred) if hist_confirmed else 0):
        lines.append("  (+%d further unmatched signatures not individually replayed)" % (len(unmatched) - len(reported) - len(nonrepro) - (len(deferred) if hist_confirmed else 0)))
    if unmatched and (reported or len(unmatched) > len(nonrepro)):
        exit_code = 1
    for ent in nonrepro:
        lines.append("HARNESS-ERROR non-reproducible signature " + jdump(ent["sig"]))
        exit_code = max(exit_code, 2)
    if hung:
        path = write_replay(prop, modname, dict(check="harness_backstop"), dict(case=None, observed="worker pool exceeded %ds" % backstop))
        lines.append("VIOLATION property={} replay={}".format(prop, path))
        exit_code = 1
    stale = [f["id"] for f in findings if f["id"] not in matched]
    desc = mod.describe(tier) if hasattr(mod, "describe") else {}
    masked = sum(m["cases"] for m in matched.values())
    nstates = len(tot["states"]) + tot["extra"].pop("n_case_states", 0)
    cov = dict(
        states=max(nstates, 1) if tot["evaluations"] else nstates,
        transitions=tot["transitions"],
        traces_validated_against_impl=tot["transitions"],
        evaluations=tot["evaluations"],
        distinct_nontrivial=min(tot["nontrivial"], nstates) if nstates else tot["nontrivial"],
        rule=desc.get("rule", ""),
        samples=tot["samples"][:6] or [dict(note="no sample")],
        exhaustive=bool(desc.get("exhaustive", True)) and limit is None and not hung,
        bounds=desc.get("bounds", {}),
        distinct_outcomes=len(tot["outcomes"]),
        outcome_histogram=dict(tot["outcomes"].most_common(40)),
        known_findings_matched={k: dict(cases=m["cases"], signatures=m["sigs"]) for k, m in matched.items()},
        masked_violation_records=masked,
        stale_patterns=stale,
        unmatched_signatures=len(unmatched),
        caps_hit=tot["caps"] + (["limit=%d" % limit] if limit is not None else []) + (["backstop"] if hung else []),
        explanation=desc.get("explanation", ""),
        workers=jobs,
    )
    for k, v in tot["extra"].items():
        cov[k] = sorted(v, key=repr) if isinstance(v, set) else v
    if hasattr(mod, "finalize"):
        mod.finalize(cov, tier)
    ev = dict(
        property_id=prop,
        tier=tier,
        seed=seed,
        level="model_checking",
        coverage=cov,
        assumptions=desc.get("assumptions", []),
        wall_s=round(time.time() - t0, 2),
        violations=len(unmatched),
    )
    evdir = os.environ.get("VERIF_EVIDENCE_DIR") or os.path.join(VERIF, "evidence")  # development runs against a scratch tree write elsewhere
    os.makedirs(evdir, exist_ok=True)
    with open(os.path.join(evdir, prop + ".json"), "w") as f:
        json.dump(ev, f, indent=1, default=repr, sort_keys=True)
    for ln in lines:
        print(ln)
    print(
        "{} tier={} seed={} cases={} transitions={} states={} outcomes={} known={} unmatched={} wall={:.1f}s".format(
            prop, tier, seed, tot["evaluations"], tot["transitions"], nstates, len(tot["outcomes"]), len(matched), len(unmatched), time.time() - t0
        )
    )
    return exit_code


def replay(modname, path):
    with open(path) as f:
        doc = json.load(f)
    again = rerun_history(modname, doc["history"]) if doc.get("history") else rerun_fresh(modname, doc["case"])
    want = sig_key(doc["signature"])
    hit = [v for v in again if sig_key(v["sig"]) == want]
    for v in again:
        print(("* " if sig_key(v["sig"]) == want else "  ") + jdump(v["sig"]))
        print("    expected: " + str(v.get("expected"))[:500])
        print("    observed: " + str(v.get("observed"))[:500])
    if hit:
        print("VIOLATION property={} replay={}".format(doc["property"], path))
        return 1
    print("replay: the recorded signature does not occur on the current tree")
    return 0


def forked(fn, *args):
    """Run fn(*args) in a forked child and return its (JSON-able) result: command-level entry points leave module state behind
    (gen writes into globals(), exmod caches in a default argument); that cross-talk is C10's subject, not the other checks'."""
    r, w = os.pipe()
    pid = os.fork()
    if pid == 0:
        code = 0
        try:
            import signal

            signal.signal(signal.SIGALRM, signal.SIG_DFL)
            signal.alarm(int(os.environ.get("VERIF_FORK_LIMIT", 120)))  # a command that never returns kills its child: the parent reports "died without a result"
            os.close(r)
            try:
                res = dict(ok=True, value=fn(*args))
            except BaseException as e:  # noqa
                res = dict(ok=False, exc=type(e).__name__, msg=str(e)[:500], tb=traceback.format_exc()[-1500:])
            data = json.dumps(res, default=repr).encode()
            if os.environ.get("VERIF_COV"):
                from mc import cov

                cov.dump()
            view = memoryview(data)
            while view:
                n = os.write(w, view[: 1 << 16])
                view = view[n:]
        except BaseException:  # noqa
            code = 3
        finally:
            os._exit(code)
    os.close(w)
    chunks = []
    while True:
        b = os.read(r, 1 << 16)
        if not b:
            break
        chunks.append(b)
    os.close(r)
    os.waitpid(pid, 0)
    try:
        res = json.loads(b"".join(chunks).decode())
    except Exception:
        raise RuntimeError("forked child died without a result")
    if not res["ok"]:
        raise RuntimeError("forked child raised %s: %s\n%s" % (res["exc"], res["msg"], res.get("tb", "")))
    return res["value"]
