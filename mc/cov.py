"""
Development aid (not part of any check's verdict): line coverage of the cdd package while checks run, to find entry points and branches
that no alphabet reaches.  Enabled by VERIF_COV=<dir>; every worker / forked child / child interpreter dumps the set of executed
(file, line) pairs into that directory; `python -m mc.cov report <dir>` lists, per module, the functions never entered and the share of
executable lines reached.  Uses sys.monitoring (3.12): each line location fires once and is then disabled, so the cost is negligible.
"""
import json
import os
import sys

_SEEN = set()
_ON = [False]
_N = [0]


def enabled():
    return bool(os.environ.get("VERIF_COV"))


def start():
    if _ON[0] or not enabled():
        return
    mon = sys.monitoring
    tool = mon.COVERAGE_ID
    try:
        mon.use_tool_id(tool, "verif-cov")
    except ValueError:
        return

    def on_line(code, lineno):
        fn = code.co_filename
        if "/cdd/" in fn and "/tests/" not in fn:
            _SEEN.add((fn[fn.rindex("/cdd/") + 1:], lineno))
        return mon.DISABLE

    mon.register_callback(tool, mon.events.LINE, on_line)
    mon.set_events(tool, mon.events.LINE)
    _ON[0] = True


def dump():
    if not _ON[0]:
        return
    d = os.environ["VERIF_COV"]
    os.makedirs(d, exist_ok=True)
    _N[0] += 1
    with open(os.path.join(d, "%d-%d.json" % (os.getpid(), _N[0])), "wt") as f:
        json.dump(sorted(_SEEN), f)


def report(d, repo="/repo"):
    import ast

    seen = set()
    for name in os.listdir(d):
        with open(os.path.join(d, name)) as f:
            seen.update(map(tuple, json.load(f)))
    by_file = {}
    for fn, ln in seen:
        by_file.setdefault(fn, set()).add(ln)
    rows = []
    for root, _, files in os.walk(os.path.join(repo, "cdd")):
        if "/tests" in root:
            continue
        for name in files:
            if not name.endswith(".py"):
                continue
            path = os.path.join(root, name)
            rel = os.path.relpath(path, repo)
            tree = ast.parse(open(path).read())
            hit = by_file.get(rel, set())
            exe = set()
            for node in ast.walk(tree):
                if isinstance(node, ast.stmt) and not isinstance(node, (ast.FunctionDef, ast.ClassDef, ast.AsyncFunctionDef, ast.Import, ast.ImportFrom)):
                    if not (isinstance(node, ast.Expr) and isinstance(node.value, ast.Constant)):
                        exe.add(node.lineno)
            unentered = []
            for node in ast.walk(tree):
                if isinstance(node, (ast.FunctionDef, ast.AsyncFunctionDef)):
                    body = [s for s in node.body if not (isinstance(s, ast.Expr) and isinstance(s.value, ast.Constant))]
                    lines = {n.lineno for s in body for n in ast.walk(s) if hasattr(n, "lineno")}
                    if lines and not (lines & hit):
                        unentered.append("%s:%d" % (node.name, node.lineno))
            rows.append((rel, len(exe & hit), len(exe), unentered))
    tot_h = sum(r[1] for r in rows)
    tot = sum(r[2] for r in rows)
    for rel, h, n, un in sorted(rows):
        if n:
            print("%-52s %4d/%4d %3d%%  not entered: %s" % (rel, h, n, 100 * h // n, ", ".join(un) or "-"))
    print("TOTAL %d/%d = %d%%" % (tot_h, tot, 100 * tot_h // max(tot, 1)))


if __name__ == "__main__":
    if sys.argv[1] == "report":
        report(sys.argv[2], *(sys.argv[3:4]))
