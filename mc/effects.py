"""
Observing effects: an audit hook (installed once per process, gated by a flag) that records compile/exec/import/open/process/socket
events, plus helpers to judge whether string-compiled code that was executed does more than load names.
"""
import dis
import os
import sys

ACTIVE = [False]
EVENTS = []
_INSTALLED = [False]

PROCESS_EVENTS = ("subprocess.Popen", "os.system", "os.exec", "os.posix_spawn", "os.spawn", "os.fork", "os.forkpty", "pty.spawn")
FS_EVENTS = ("os.mkdir", "os.rename", "os.remove", "os.rmdir", "os.chmod", "os.chown", "os.link", "os.symlink", "os.truncate", "shutil.rmtree", "shutil.move", "shutil.copyfile")


def _hook(event, args):
    if not ACTIVE[0]:
        return
    try:
        if event == "compile":
            src = args[0]
            if isinstance(src, (bytes, bytearray)):
                src = bytes(src).decode("utf-8", "replace")
            EVENTS.append(("compile", src if isinstance(src, str) else None, args[1]))
        elif event == "exec":
            EVENTS.append(("exec", args[0]))
        elif event == "import":
            EVENTS.append(("import", args[0]))
        elif event == "open":
            EVENTS.append(("open", args[0], args[1], args[2]))
        elif event in PROCESS_EVENTS or event in FS_EVENTS or event.startswith("socket.") or event.startswith("subprocess.") or event.startswith("urllib.") or event.startswith("http."):
            EVENTS.append((event, tuple(repr(a)[:120] for a in args)))
    except Exception:
        pass


def install():
    if not _INSTALLED[0]:
        sys.addaudithook(_hook)
        _INSTALLED[0] = True


class Recording(object):
    def __enter__(self):
        install()
        del EVENTS[:]
        ACTIVE[0] = True
        return EVENTS

    def __exit__(self, *a):
        ACTIVE[0] = False
        return False


FORBIDDEN_OPS = ("CALL", "IMPORT", "MAKE_FUNCTION", "BUILD_CLASS", "LIST_APPEND", "SET_ADD", "MAP_ADD", "GET_ITER", "FOR_ITER", "YIELD", "STORE_NAME", "STORE_GLOBAL", "STORE_ATTR", "FORMAT_VALUE", "BUILD_STRING", "DELETE")


def code_profile(code):
    """-> (set of forbidden opcode families used, dunder names referenced) for a code object (recursively)"""
    ops, dunders = set(), set()
    stack = [code]
    while stack:
        c = stack.pop()
        for ins in dis.get_instructions(c):
            for fam in FORBIDDEN_OPS:
                if ins.opname.startswith(fam):
                    ops.add(fam)
        for n in c.co_names:
            if n.startswith("__") and n.endswith("__"):
                dunders.add(n)
        for k in c.co_consts:
            if hasattr(k, "co_code"):
                stack.append(k)
    return ops, dunders


def is_write_mode(mode, flags):
    if isinstance(mode, str) and any(ch in mode for ch in "wax+"):
        return True
    if isinstance(flags, int) and flags & (os.O_WRONLY | os.O_RDWR | os.O_CREAT | os.O_TRUNC | os.O_APPEND):
        return True
    return False
