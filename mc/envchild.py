"""
Child interpreter for configuration the library reads from the environment *at import time* (DOCTRANS_LINE_LENGTH, DOCTRANS_TAB,
FORCE_PK_ID): started by core.run_cases_in_env with those variables set, runs the given cases of a check module through the module's
own run() and prints their results as JSON.

  python -B -m mc.envchild <module> <tier> <seed>      (cases as a JSON list on stdin)
"""
import json
import os
import sys


def main():
    sys.path.insert(0, os.path.dirname(os.path.dirname(os.path.abspath(__file__))))
    from mc import core

    modname, tier, seed = sys.argv[1], sys.argv[2], int(sys.argv[3])
    cases = json.load(sys.stdin)
    core.scrub_env()  # keeps the variables named in VERIF_KEEP_ENV
    core.add_deps()
    real_stdout = os.dup(1)
    devnull = os.open(os.devnull, os.O_WRONLY)
    os.dup2(devnull, 1)
    os.dup2(devnull, 2)
    import importlib

    mod = importlib.import_module(modname)
    if hasattr(mod, "worker_init"):
        mod.worker_init(tier, seed)
    out = []
    for case in cases:
        res = core.run_one(mod, case)
        out.append(dict(outcome=res.get("outcome", "ok"), transitions=int(res.get("transitions", 1)), evaluations=int(res.get("evaluations", 1)),
                        violations=[dict(sig=v["sig"], expected=v.get("expected"), observed=v.get("observed"), detail=v.get("detail"), case=v.get("case", case)) for v in res.get("violations", ())]))
    os.write(real_stdout, json.dumps(out, default=repr).encode())


if __name__ == "__main__":
    main()
