"""
One hop through a format: emit(IR) -> AST -> source text (to_code) -> ast.parse -> matching parser -> IR'.
Only public entry points of cdd are used.
"""
import ast
import json
from copy import deepcopy

STYLES = ["rest", "google", "numpydoc"]


class HopError(Exception):
    """A stage of a hop raised; .stage in {emit, render, reread, parse}"""

    def __init__(self, stage, exc, text=None):
        Exception.__init__(self, "%s: %s: %s" % (stage, type(exc).__name__, exc))
        self.stage, self.exc, self.text = stage, exc, text


def _stage(stage, f, *a, text=None, **kw):
    try:
        return f(*a, **kw)
    except RecursionError:
        raise
    except Exception as e:
        raise HopError(stage, e, text)


def render(node):
    from cdd.shared.source_transformer import to_code

    return to_code(node)


def emit_ast(fmt, ir, style="rest", emit_default_doc=False, **kw):
    """-> AST node (or dict/str for json_schema/docstring)"""
    import cdd.argparse_function.emit
    import cdd.class_.emit
    import cdd.docstring.emit
    import cdd.function.emit
    import cdd.json_schema.emit
    import cdd.pydantic.emit
    import cdd.sqlalchemy.emit

    ir = deepcopy(ir)
    if fmt == "class":
        extra = {k: kw[k] for k in ("class_bases", "decorator_list", "emit_call") if k in kw}
        return cdd.class_.emit.class_(ir, class_name="Cfg", docstring_format=style, emit_default_doc=emit_default_doc, **extra)
    if fmt == "pydantic":
        return cdd.pydantic.emit.pydantic(ir, class_name="Cfg", docstring_format=style, emit_default_doc=emit_default_doc)
    if fmt == "function":
        return cdd.function.emit.function(
            ir,
            function_name="fn",
            function_type=kw.get("function_type", "static"),
            docstring_format=style,
            emit_default_doc=emit_default_doc,
            type_annotations=kw.get("type_annotations", True),
            emit_as_kwonlyargs=kw.get("emit_as_kwonlyargs", False),
        )
    if fmt == "argparse":
        return cdd.argparse_function.emit.argparse_function(ir, emit_default_doc=emit_default_doc, docstring_format=style)
    if fmt == "docstring":
        return cdd.docstring.emit.docstring(ir, docstring_format=style, emit_default_doc=emit_default_doc)
    if fmt == "json_schema":
        return cdd.json_schema.emit.json_schema(ir, "https://example.com/cfg.schema.json")
    if fmt in ("sqlalchemy", "sqlalchemy_table", "sqlalchemy_hybrid"):
        f = getattr(cdd.sqlalchemy.emit, fmt)
        kwargs = dict(docstring_format=style, emit_default_doc=emit_default_doc)
        if "force_pk_id" in kw:
            kwargs["force_pk_id"] = kw["force_pk_id"]
        if fmt == "sqlalchemy_table":
            return f(ir, name="cfg_tbl", **kwargs)
        return f(ir, class_name="Cfg", table_name="cfg_tbl", **kwargs) if fmt != "sqlalchemy" else f(ir, class_name="Cfg", **kwargs)
    raise ValueError(fmt)


def parse_text(fmt, text, **kw):
    """text (or dict) -> IR through the matching parser"""
    import cdd.argparse_function.parse
    import cdd.class_.parse
    import cdd.docstring.parse
    import cdd.function.parse
    import cdd.json_schema.parse
    import cdd.pydantic.parse
    import cdd.sqlalchemy.parse

    if fmt == "docstring":
        return _stage("parse", cdd.docstring.parse.docstring, text, emit_default_doc=kw.get("emit_default_doc", False), text=text)
    if fmt == "json_schema":
        return _stage("parse", cdd.json_schema.parse.json_schema, text, text=json.dumps(text, default=repr))
    mod = _stage("reread", ast.parse, text, text=text)
    node = mod.body[0] if len(mod.body) == 1 else next((n for n in mod.body if isinstance(n, (ast.ClassDef, ast.FunctionDef, ast.Assign))), mod)
    parser = {
        "class": cdd.class_.parse.class_,
        "pydantic": cdd.pydantic.parse.pydantic,
        "function": cdd.function.parse.function,
        "argparse": cdd.argparse_function.parse.argparse_ast,
        "sqlalchemy": cdd.sqlalchemy.parse.sqlalchemy,
        "sqlalchemy_table": cdd.sqlalchemy.parse.sqlalchemy_table,
        "sqlalchemy_hybrid": cdd.sqlalchemy.parse.sqlalchemy_hybrid,
    }[fmt]
    return _stage("parse", parser, node, text=text)


def hop(fmt, ir, style="rest", emit_default_doc=False, **kw):
    """-> (IR', text)"""
    node = _stage("emit", emit_ast, fmt, ir, style, emit_default_doc, **kw)
    if fmt == "docstring":
        text = node
    elif fmt == "json_schema":
        text = _stage("render", lambda d: json.loads(json.dumps(d)), node)
    else:
        text = _stage("render", render, node)
    back = parse_text(fmt, text, emit_default_doc=emit_default_doc)
    return back, (text if isinstance(text, str) else json.dumps(text, sort_keys=True))


# ---- IR <-> JSON-able -------------------------------------------------------------------------------------


def ir_to_json(ir):
    return dict(
        name=ir.get("name"),
        type=ir.get("type"),
        doc=ir.get("doc"),
        params=[[n, dict(p)] for n, p in (ir.get("params") or {}).items()],
        returns=None if not ir.get("returns") else dict(ir["returns"]["return_type"]),
    )


def ir_from_json(j):
    from collections import OrderedDict

    return dict(
        name=j["name"],
        type=j["type"],
        doc=j["doc"],
        params=OrderedDict((n, OrderedDict(p)) for n, p in j["params"]),
        returns=None if j["returns"] is None else OrderedDict((("return_type", OrderedDict(j["returns"])),)),
    )
