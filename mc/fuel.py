"""
Termination as a counted quantity: sys.settrace line events inside the cdd package are counted and the run is aborted when a
budget is exceeded.  Deterministic (no wall clock).  FuelExhausted derives from BaseException and is re-raised at every further
line event, so `except Exception` / `suppress` in the code under test cannot swallow it.
"""
import os
import sys


class FuelExhausted(BaseException):
    pass


_CDD_DIR = None


def cdd_dir():
    global _CDD_DIR
    if _CDD_DIR is None:
        import cdd

        _CDD_DIR = os.path.dirname(os.path.abspath(cdd.__file__)) + os.sep
    return _CDD_DIR


def run_with_fuel(budget, f, *a, **kw):
    """-> (outcome, value_or_exc, steps) with outcome in {'returns', 'raises', 'exhausted'}"""
    base = cdd_dir()
    state = {"n": 0}

    def local(frame, event, arg):
        if event == "line":
            state["n"] += 1
            if state["n"] > budget:
                raise FuelExhausted(state["n"])
        return local

    def tracer(frame, event, arg):
        if event == "call" and frame.f_code.co_filename.startswith(base):
            if state["n"] > budget:
                raise FuelExhausted(state["n"])
            return local
        return None

    old = sys.gettrace()
    sys.settrace(tracer)
    try:
        try:
            val = f(*a, **kw)
            return "returns", val, state["n"]
        except FuelExhausted:
            return "exhausted", None, state["n"]
        except RecursionError as e:
            return "raises", e, state["n"]
        except Exception as e:
            return "raises", e, state["n"]
    finally:
        sys.settrace(old)
