"""Helper to (re)write /verif/known_findings.json from python literals kept in /verif/findings_src/*.py - used by hand, never at check time."""
import glob
import json
import os

VERIF = os.path.dirname(os.path.dirname(os.path.abspath(__file__)))


def main():
    findings, fixed = [], []
    for path in sorted(glob.glob(os.path.join(VERIF, "findings_src", "*.py"))):
        ns = {}
        exec(open(path).read(), ns)
        findings.extend(ns.get("FINDINGS", []))
        fixed.extend(ns.get("FIXED", []))
    ids = [f["id"] for f in findings]
    assert len(ids) == len(set(ids)), "duplicate finding ids"
    for f in findings:
        for k in ("id", "property", "pattern", "what", "site", "example"):
            assert k in f, (f.get("id"), k)
        assert "check" in f["pattern"], f["id"]
    with open(os.path.join(VERIF, "known_findings.json"), "w") as fh:
        json.dump(dict(findings=findings, fixed=fixed), fh, indent=1, sort_keys=True)
        fh.write("\n")
    print("known_findings.json: %d findings, %d fixed" % (len(findings), len(fixed)))


if __name__ == "__main__":
    main()
