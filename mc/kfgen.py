"""
Bootstrap helper (used by hand while triaging, never by a check): turn dumped violation signatures into known-finding
pattern stubs grouped on chosen keys.

  python -m mc.kfgen dump.json PROPERTY key1,key2,... [filter k=v ...]  > findings_src/xxx_auto.py
"""
import json
import sys
from collections import OrderedDict


def main():
    dump, prop, keys = sys.argv[1], sys.argv[2], sys.argv[3].split(",")
    flt = dict(a.split("=", 1) for a in sys.argv[4:])
    data = [e for e in json.load(open(dump)) if not e.get("known") and all(str(e["sig"].get(k)) == v for k, v in flt.items())]
    groups = OrderedDict()
    REFINE = [x for x in ("style", "type_annotations", "kwonly", "emit_default_doc", "emit_types", "entry", "typ_class", "default_kind", "doc_kind", "ret",
                          "typ_classes", "default_kinds", "variant", "force_pk_id", "last_hop") if x not in keys]
    domain = {}
    for e in data:
        for x in REFINE:
            if x in e["sig"]:
                domain.setdefault(x, set()).add(json.dumps(e["sig"][x]))
    for e in sorted(data, key=lambda e: -e["count"]):
        k = tuple((x, e["sig"].get(x)) for x in keys if x in e["sig"])
        g = groups.setdefault(k, dict(n=0, ex=e["example"], sig=e["sig"], vals={}))
        g["n"] += e["count"]
        for x in REFINE:
            if x in e["sig"]:
                g["vals"].setdefault(x, set()).add(json.dumps(e["sig"][x]))
    out = []
    for i, (k, g) in enumerate(groups.items()):
        pat = dict(k)
        for x, vals in g["vals"].items():
            if vals != domain[x] and len(vals) <= 6:
                vs = sorted(json.loads(v) for v in vals) if all(isinstance(json.loads(v), (str, int)) and not isinstance(json.loads(v), bool) for v in vals) else [json.loads(v) for v in sorted(vals)]
                pat[x] = vs[0] if len(vs) == 1 else {"in": vs}
        case = g["ex"]["case"]
        ir = case.get("ir", case) if isinstance(case, dict) else case
        short = {"params": ir.get("params"), "returns": ir.get("returns")} if isinstance(ir, dict) and "params" in ir else ir
        out.append(
            dict(
                id="%s-%03d" % (prop, i),
                property=prop,
                pattern=pat,
                what="",
                site="",
                example=json.dumps(dict(input=short, cfg=case.get("cfg") if isinstance(case, dict) else None,
                                        expected=str(g["ex"].get("expected"))[:160], observed=str(g["ex"].get("observed"))[:160]), default=repr)[:700],
                cases_when_recorded=g["n"],
            )
        )
    print("FINDINGS = " + json.dumps(out, indent=1).replace(": true", ": True").replace(": false", ": False").replace(": null", ": None"))
    sys.stderr.write("%d groups from %d signatures\n" % (len(out), len(data)))


if __name__ == "__main__":
    main()
