"""Regenerates /verif/MANIFEST.json from the table below:  /venv/bin/python -m mc.manifest"""
import json
import os

VERIF = os.path.dirname(os.path.dirname(os.path.abspath(__file__)))

# id -> (technique, level text, level note, design ref)
CHECKS = {
    "C09": (
        "bounded-exhaustive enumeration of all token strings (explicit-state, on the implementation)",
        "Every string of <= N lexical tokens (N=4 over 23 tokens, N=5 over a 10-token quote/bracket sub-alphabet; thorough N=5/7), every "
        "repository file and the full single-edit neighbourhood of the small ones is run through the real scanner and parser and compared "
        "with the input: a coverage statement over a closed finite space, which is what 'for every string' can mean for a hand-written "
        "character state machine whose decisions depend only on the tokens in the alphabet.",
        "small-scope hypothesis over the lexical alphabet; CPython str operations as reference",
        "DESIGN.md section 3, C09",
    ),
}

CHECKS["C01"] = (
    "bounded-exhaustive enumeration of (interface x configuration) on the implementation, reference-model comparison",
    "All interfaces of 1 parameter over a ~200-kind alphabet and all 2-/3-tuples over an 11-kind collision alphabet (thorough: all pairs over "
    "the full alphabet and 4-tuples) x all 24 configurations are emitted and parsed back by the real code; each field of each parameter is "
    "compared with a projection reference model. Exhaustive inside the stated alphabet, which is how 'for all interfaces x styles x flags' "
    "is made finite; recorded genuine defects are matched by signature patterns and everything else is an alarm.",
    "mc/oracle.py projection and normalisation; small-scope hypothesis over parameter kinds and count",
    "DESIGN.md section 3, C01",
)

CHECKS["C02"] = (
    "bounded-exhaustive enumeration of (interface x format x configuration) on the implementation, reference-model comparison",
    "Same interface space as C01 (including undocumented parameters) x 42 configurations (class, pydantic, function x annotations x kw-only, "
    "argparse; 3 styles; emit_default_doc): emit, render with to_code, re-read with ast.parse, parse with the matching parser, compare every "
    "field with the projection model under the two documented normalisations. Exhaustive inside the alphabet.",
    "mc/oracle.py projection and the two documented normalisations; small-scope hypothesis",
    "DESIGN.md section 3, C02",
)

CHECKS["C03"] = (
    "explicit-state BFS over the conversion graph (canonical state hashing), real hops as transitions",
    "For every initial interface of the common domain (1-3 parameters) a breadth-first search explores every chain of hops over "
    "{class, pydantic, function, argparse, docstring-rest} up to depth 5 (thorough 6) - all sequences, none sampled - merging states by "
    "canonical interface; every transition is executed by the real emit/render/parse code and must preserve its source state. Graphs that "
    "close before the bound cover chains of every length.",
    "per-hop preservation implies end-to-end preservation and commutation; transitions out of already-violating states are not followed",
    "DESIGN.md section 3, C03",
)

CHECKS["C08"] = (
    "exhaustive enumeration of (interface x format) with 4-round conversion histories on the implementation, exact state comparison",
    "Every interface of the alphabet (including trigger-word descriptions, untyped parameters, non-suffix defaults) x 12 format variants is "
    "driven through four consecutive emit->render->parse rounds on the real code; the state after round 1 must equal the states after "
    "rounds 2, 3 and 4 exactly (raw descriptions, type strings, default values and their Python types).",
    "a failing first round is C02/C05/C06's subject, not a fixpoint violation; determinism of the code makes a repeated state a self-loop",
    "DESIGN.md section 3, C08",
)

CHECKS["C18"] = (
    "exhaustive enumeration of import histories of length 1 and 2 (fresh interpreter / fork from a cdd-free parent)",
    "Every non-test module is imported first in a fresh interpreter, and every ordered pair of modules (all ~7.8k of them, in both tiers) "
    "is imported in a process forked from a parent that holds no cdd module; the import must succeed and each module's public names "
    "must equal those it has when imported alone. The thorough tier repeats every pair in a real subprocess.",
    "fork from a cdd-free parent ~ fresh interpreter (validated by the thorough tier); histories longer than 2 are not explored",
    "DESIGN.md section 3, C18",
)

CHECKS["C11"] = (
    "bounded-exhaustive enumeration of inputs and repeated-application histories under a deterministic step budget (sys.settrace fuel)",
    "All docstrings of <= 3 (thorough 4) tokens over a 28-token alphabet through the parser and the splitter, all (header, description) "
    "pairs of a whitespace alphabet x styles x indents through the emitter, and generated modules through doctrans applied 1..3 times; "
    "every call runs under a step budget C0 + C1*len(input) counted in line events of the cdd package, so non-termination is a decided, "
    "replayable outcome rather than a wall-clock guess.",
    "steps are counted in Python line events of cdd (loops inside C helpers are not seen); linearity is judged against a fixed envelope",
    "DESIGN.md section 3, C11",
)

CHECKS["C06"] = (
    "bounded-exhaustive enumeration of JSON-representable interfaces on the implementation; jsonschema meta-schema + reference-model oracle",
    "All interfaces with 0-3 parameters over 15 type shapes (thorough 4) plus covering sequences of 4-8 parameters are emitted; each schema is "
    "serialised, checked against the draft 2020-12 meta-schema, its required list compared with Optional-ness, every default validated "
    "against its own property schema, every Literal pattern probed with members and near-misses, and parsed back and compared.",
    "jsonschema's Draft202012Validator and re.search are trusted; the return entry is not compared on the way back",
    "DESIGN.md section 3, C06",
)

CHECKS["C05"] = (
    "bounded-exhaustive enumeration of SQL-representable interfaces x variants x configurations on the implementation; reference model + differential oracle",
    "All interfaces of 1-3 columns (thorough 4) over 12 type shapes, legal defaults, PK/FK markers and primary-key-candidate names x "
    "{class, Table, hybrid} x 3 styles x force_pk_id are emitted, rendered, re-read and parsed; the result must equal a reference model "
    "of the documented primary-key inference, the three variants must agree pairwise, and every emission must contain exactly one "
    "primary_key=True.",
    "reference model of primary-key inference in mc/checks/c05.py; SQLAlchemy not installed, emitted code analysed as AST only",
    "DESIGN.md section 3, C05",
)

CHECKS["C04"] = (
    "bounded-exhaustive enumeration of emitted programs, executed in a real interpreter (CPython/inspect/argparse as oracle)",
    "Every interface of the executable domain (1-3 parameters; thorough: all pairs over the full alphabet) x {class, pydantic-shaped class, "
    "function variants, argparse} x 3 styles is emitted, rendered, re-parsed (AST equality), compiled and executed; class attributes and "
    "annotations, inspect.signature and the populated ArgumentParser (type conversion, choices, default, required, help, parse_args) are "
    "compared with the description.",
    "CPython 3.12 is the oracle; pydantic is not installed, so pydantic-shaped classes run against an inert BaseModel stub",
    "DESIGN.md section 3, C04",
)

CHECKS["C14"] = (
    "bounded-exhaustive enumeration of parser inputs (token strings, section grammars, emitted programs, partially documented signatures); shape invariant on every output",
    "The property's shape predicate is evaluated on everything the parsers return for: all docstrings of <= 3 (thorough 4) tokens, all orders "
    "of <= 4 of 8 sections in three styles, every interface of the alphabet emitted through 10 format variants and re-parsed, and functions "
    "documenting every subset and permutation of a 3-parameter signature under five signature shapes.",
    "the predicate in mc/checks/c14.py:wellformed transcribes the property text; top-level doc may be None (declared Optional[str])",
    "DESIGN.md section 3, C14",
)

CHECKS["C10"] = (
    "exhaustive exploration of (hash seed x call history x operation) in fresh interpreters, histories as a fork tree; digest comparison",
    "For every PYTHONHASHSEED in a range (16 quick / 48 thorough, plus a VERIF_SEED block) a fresh interpreter explores every call history "
    "of length <= 1 (thorough 2) over 18 operations as a fork tree and the output digest of every operation is compared with the "
    "reference run (seed 0, empty history); the check also measures how many distinct set-iteration orders the explored seeds produced.",
    "hash seeds are a sampled range (coverage of iteration orders is measured); os.listdir order is not varied",
    "DESIGN.md section 3, C10",
)

CHECKS["C07"] = (
    "bounded-exhaustive enumeration of programs x configurations with repeated application and fault-point enumeration, on the implementation",
    "Every module of a program alphabet (7 definition kinds x 12 header shapes x 6 docstring shapes x bodies; all ordered pairs over a "
    "14-definition sub-alphabet with equal or distinct names) x 12 configurations is run through doctrans up to three times; after each run "
    "the result must parse, equal the original after erasing docstrings/annotations, keep its comment tokens and all other lines; an "
    "exception is injected at the first entry of every cdd function a clean run enters and the file must then be byte-identical.",
    "erasure and line classification in mc/checks/c07.py; termination here is only a wall-clock backstop (C11 decides it with a step budget)",
    "DESIGN.md section 3, C07",
)

CHECKS["C13"] = (
    "bounded-exhaustive enumeration of (output module x location x input property x options) on the implementation; reference-transformer oracle",
    "Every output module of a small grammar (function or method with 1-3 (thorough 4) parameters, every default-suffix length, self/cls, "
    "keyword-only tail, optional decoy definitions carrying the same names before the target) x every output location x 5 input properties "
    "x wrap template x --input-eval is run through sync_properties; the resulting AST must equal a reference transformer's result modulo "
    "the selected node's own default, and the input file must be unchanged.",
    "reference transformer in mc/checks/c13.py; comparison on ASTs because the command re-renders the file through black",
    "DESIGN.md section 3, C13",
)

CHECKS["C12"] = (
    "explicit-state exploration of file-system states under repeated application of the real command (runs 1..3, closes on a fixpoint)",
    "Every initial state (truth kind x 8 truth interfaces x each other target in {equivalent, different, missing, empty}, unrelated "
    "definitions around every target) is driven through `sync` one, two and three times; after run 1 every file must be valid Python, "
    "every named target must parse to the truth's interface, the truth and all code outside the targets must be unchanged (ASTs); runs 2 "
    "and 3 must leave every file byte-identical.",
    "all three kinds always listed; outside-target comparison on ASTs (the command re-renders files); C02 normalisations for equivalence",
    "DESIGN.md section 3, C12",
)

CHECKS["C15"] = (
    "exhaustive enumeration of docstring layouts on the implementation; exact boundary/reference comparison",
    "All 1296 docstrings of a layout grammar (3 headers x 3 section styles x 4 footers x indentation 0/4/8 x leading newline x separator x "
    "trailing whitespace) go through the header/section/footer splitter - the parts must concatenate to the original (exactly, or exactly "
    "up to the function's deliberate re-indentation) and the boundaries are compared with the ones known by construction (signed line "
    "offset, mid-line flag) - and through parse -> emit into every target style, where every header prose line must survive in order and no "
    "prose line may end up in a parsed type or default.",
    "layout grammar is small (2 parameters + return); conversions run with word_wrap=False",
    "DESIGN.md section 3, C15",
)

CHECKS["C16"] = (
    "bounded-exhaustive enumeration of (models x CRUD subsets x routes x apps) through both generators; closed-document invariants",
    "All combinations of 6 model names, 3 primary-key kinds, 1-3 columns, all 7 non-empty CRUD subsets, 2 route prefixes (2 app names), and "
    "documents with 2 (all 49 CRUD pairs) and 3 models go through openapi.emit.openapi and through the sqlalchemy -> gen_routes -> "
    "upsert_routes -> openapi_bulk pipeline (separate and shared routes file); every document must serialise, every $ref must resolve in "
    "it, every path parameter be declared, the operations per path be exactly the requested ones and the schema list the model's columns.",
    "expected operation placement (C: POST on collection; R/D: GET/DELETE on item) is taken from the property text",
    "DESIGN.md section 3, C16",
)

CHECKS["C17"] = (
    "exhaustive enumeration of (entry point x slot x payload x expression context) and of whitelist-probing token strings, under an audit-hook monitor",
    "Every analysing entry point (parsers incl. infer_type variants, emitters, doctrans, sync, gen from file, sync_properties without "
    "--input-eval, JSON-schema parse) is run on inputs carrying each of 14 adversarial payloads in each docstring/code slot, each quoting and "
    "each of 11 expression contexts, and the docstring parser on every description of <= 3 (thorough 4) tokens over a 15-token alphabet "
    "probing the character whitelist; sys.addaudithook records compile/exec/import/open/process/socket events and the oracle rejects any "
    "execution of input-derived code beyond name loads, any sentinel import, foreign write, process or network event.",
    "CPython audit events are complete for these effects; input-derived code is recognised by marker substrings; two sanctioned paths serve as positive controls",
    "DESIGN.md section 3, C17",
)

CHECKS["C19"] = (
    "bounded-exhaustive enumeration of (input file x parse kind x emit kind x options) through the real command, each run in a forked child",
    "Input files with 1-3 symbols (classes, functions, argparse functions, three mixed-kind files, a JSON-schema file) x explicit/inferred "
    "parse kind x all 8 emit kinds x 2 name templates x 4 import-option combinations, plus the non-clobbering guard for every emit kind; the "
    "output must compile, define exactly the templated names, list exactly those in __all__, every symbol must parse back to its source "
    "interface, inferred imports must cover every typing/SQLAlchemy name used, and an existing output must be refused and left untouched.",
    "symbol comparison under the C02/C05 normalisations; generated SQLAlchemy/pydantic code is compiled, not executed",
    "DESIGN.md section 3, C19",
)

CHECKS["C20"] = (
    "bounded-exhaustive enumeration of (package tree x options) through the real command in forked children; file-system snapshot + audit-hook oracle",
    "Package trees of depth 1-3 (complete/partial __all__) on sys.path x 8 emit kinds x SQLAlchemy submodule x recursive x 4 filter settings x "
    "dry-run x pre-existing output directory: a dry run must leave a recursive (type, size, mtime, sha256) snapshot of the whole scratch root "
    "identical and cause no write/mkdir/remove audit event; a real run may create paths only under the output directory, every generated "
    "file must be valid Python whose __all__ names are bound there, the source package must be untouched and filtered modules absent.",
    "bytecode caching is switched off (configuration, not exmod's action); packages are found through sys.path instead of pip install",
    "DESIGN.md section 3, C20",
)

PENDING_REASON = "check not built yet in this revision (planned, see DESIGN.md section 3); no claim is made"


# what later rounds added to each space (DESIGN.md 8.7-8.9); appended to the level text
ADDED = {
    "C01": "Later additions: name sets containing one another, empty summary, long return description, wide and nested types, single-member and numeric Literals, string defaults with quotes and full stops, a sweep of every description length across the wrap column, and blocks re-run in child interpreters under DOCTRANS_LINE_LENGTH / DOCTRANS_TAB. Rounds 6-7: interfaces without parameters, partial return entries, the length sweep with a neighbour parameter before/after the swept one.",
    "C02": "Later additions: a partially-documented family (pairs and alternating triples), emitter keyword arguments (function_type, class_bases, decorator_list), the wrap-length sweep and the environment variants of C01, nested types. Rounds 6-7: optional lists of scalars.",
    "C03": "Later additions: `_internal` is carried along the chain and is part of the state key; the extended type/default alphabet. Round 8: two hops written with emit_default_doc=True, taken as first hop of every search.",
    "C04": "Later additions: numeric and single-member Literals; for every Literal member its command-line text must convert to the member and be accepted by choices. Round 8: the class, pydantic, function and argparse emitters also with emit_default_doc=True.",
    "C05": "Later additions: single-member Literal, Optional[Literal], equal primary-key names. Rounds 6-7: keyword-like column names.",
    "C06": "Later additions: Literal members with regex metacharacters, hyphens and spaces; single-member Literal; Optional[Literal]. Rounds 6-7: the return entry (all return kinds), string defaults whose text reads as another literal. Round 8: return entries with truthy and falsy defaults.",
    "C07": "Later additions: file-level layouts (CRLF, tabs, no final newline, single-quoted and raw docstrings, semicolon bodies), one-line definitions, decorated kinds, positional-only parameters with defaults, partially and reversely documented functions, and modules written by the library's own emitters. Rounds 6-7: return annotations with brackets of their own on headers without annotated parameters, bodies that are only a docstring, docstrings that become empty. Round 8: a blank line or a comment under every header, a blank line after every docstring.",
    "C08": "Later additions: long return description, wide type, nested types; a history is closed as soon as the whole live object (including `_internal`) repeats. Rounds 6-7: descriptions that begin with a trigger word.",
    "C09": "Later additions: CRLF/tab/form-feed tokens, all sequences of <= 4 (thorough 5) lines over a 20-line alphabet of realistic source lines, and a parse-use-parse-again clause through doctrans. Round 8: a block that already fails is cut short, so that a defect which slows every later call is still reported.",
    "C10": "Later additions: 25 operations including twin inputs (values equal across types), two operations on one source text, names the parser does not see; sharded by (seed, first operation); an operation that only raises is reported as a harness defect. Rounds 6-7: a prose-type operation and two SQLAlchemy-model operations that share column types. Round 8: an exmod operation on a module exporting names that differ only in case.",
    "C11": "Later additions: a 24-token prose alphabet through every emitter and re-parse, the C07 program alphabet through doctrans, and the emitter/doctrans families again under very narrow wrap widths and a tab character (child interpreters). Rounds 6-7: every Google/NumPy argument section of <= 4 (thorough 5) whole-line units over a ten-unit alphabet. Round 8: programs with more defaults than parameters the parser keeps.",
    "C12": "Later additions: near-miss targets (one default, one trailing parameter more, last parameter missing, Literal one member short), truths without per-parameter descriptions and with a return value, targets in another docstring style, --no-word-wrap; thorough: every truth of 1-2 parameters over nine kinds. Rounds 6-7: four statement orders of an argparse truth (reference read from the standard order), a description longer than the wrap column, a clause on line breaks inside a parsed description.",
    "C13": "Later additions: a second input module in which every selected name is shadowed by an earlier node of another kind; method-parameter inputs. Rounds 6-7: a template naming the placeholder twice; every call also after every other call in the same process on the same input file (thorough: after every pair). Round 8: one call with two pairs (class attribute and parameter, both orders, every pair of inputs); the selected location's default must be its own, the input's, or none.",
    "C14": "Later additions: 16 128 hand-built JSON-schema documents, functions and classes parsed as live objects, 51 legal but unusually laid out definitions, 174 hand-written SQLAlchemy models. Rounds 6-7: 16 return-section layouts and 21 parameter-entry layouts per style (named returns, types on their own line, subscripted types with the optional marker). Round 8: positional-only headers in the partially documented family; the C11 whole-line unit family.",
    "C15": "Later additions: parameters-only / return-only sections, headers whose prose mentions section words, a whitespace-only first line, the default-flag function route; thorough: indentation 2 and 12, three separators. Rounds 6-7: blank lines that carry the docstring's indentation.",
    "C16": "Later additions: equal primary-key names across models, two applications sharing a routes file; thorough: all name/primary-key/CRUD pairs. Rounds 6-7: all CRUD letter orders; a model's operations must name a schema with that model's columns.",
    "C17": "Later additions: the route/OpenAPI entry points with YAML payloads (python-specific tags), expression contexts around payloads, an un-annotated default slot. Rounds 6-7: five type-guess sentence shapes, live objects with text annotations, inspection of the module table and of module execution after every case. Round 8: nine argparse arguments whose type= names a deserialiser or evaluator and whose default= is its payload, through four entry points.",
    "C18": "Later additions: a module's observation is its __all__, whether each of those names is bound, and every bound public name; an unbound __all__ name is reported unconditionally.",
    "C19": "Later additions: input mapping given as a directory and as module.SYMBOL (live objects), --no-word-wrap / --decorator / --emit-call, an imports file with a __future__ import; thorough: 1-5 symbols. Rounds 6-7: declarative SQLAlchemy models with five base-class lists through --parse infer (differential against --parse sqlalchemy). Round 8: JSON-schema outputs are checked for their $id names and properties.",
    "C20": "Later additions: output directory populated by an earlier real run, the exposed sub-package named in neither/one/both lists, --target-module-name / --no-word-wrap / --extra-module, a re-export-through-sub-package layout with typing attributes. Rounds 6-7: exposing and filtering a module two levels down. Round 8: packages whose classes are declarative SQLAlchemy models with a table name of their own.",
}


def main():
    props = [json.loads(l)["id"] for l in open(os.path.join(VERIF, "properties.jsonl")) if l.strip()]
    checks = []
    for pid in props:
        if pid not in CHECKS:
            continue
        technique, text, note, ref = CHECKS[pid]
        checks.append(
            dict(
                property_id=pid,
                quick_cmd="./check {} --tier quick".format(pid),
                thorough_cmd="./check {} --tier thorough".format(pid),
                evidence_file="/verif/evidence/{}.json".format(pid),
                replay_cmd_template="./check {} --replay {{path}}".format(pid),
                engine="mc-explorer",
                level_claimed=dict(category="model_checking", text=text + " " + ADDED.get(pid, ""), design_ref=ref),
                level_note=note,
                technique=technique,
            )
        )
    na_path = os.path.join(VERIF, "mc", "not_applicable.json")
    na_doc = json.load(open(na_path)) if os.path.isfile(na_path) else {}
    manifest = dict(
        version=1,
        setup_cmd="./setup.sh",
        hooks=dict(
            guard="CDD_VERIF",
            enable="no source hooks are needed: the explorer drives cdd's public entry points from outside (sys.settrace / sys.addaudithook / "
            "fork per case); checks import cdd from /repo's working tree (editable install) on every run",
            baseline_off_cmd="cd /repo && /venv/bin/python -m pytest -ra -q -p no:cacheprovider --timeout=900 --continue-on-collection-errors",
            source_commits=[],
            add_only=True,
        ),
        engines=[
            dict(
                name="mc-explorer",
                path="/verif/mc",
                serves_properties=[c["property_id"] for c in checks],
                kind_free_text="hand-written explicit-state / bounded-exhaustive explorer for Python: deterministic enumeration of "
                "(input x configuration x history x environment answer) spaces, BFS with canonical state hashing for histories, "
                "real implementation executed on every element, sharded over forked workers",
            )
        ],
        checks=checks,
        notes="Known genuine defects are listed in /verif/known_findings.json (signature patterns + fixed entries); see DESIGN.md.",
        not_applicable=[
            dict(property_id=pid, reason=na_doc.get(pid, PENDING_REASON)) for pid in props if pid not in CHECKS
        ],
    )
    with open(os.path.join(VERIF, "MANIFEST.json"), "w") as f:
        json.dump(manifest, f, indent=1)
        f.write("\n")
    print("MANIFEST.json: %d checks, %d not_applicable" % (len(checks), len(manifest["not_applicable"])))


if __name__ == "__main__":
    main()
