"""
Reference model for all round-trip properties: the *interface* of an IR and its field-by-field comparison.

project(ir) -> ordered list of entries {name, typ, default, doc}; compare(expected_ir, observed_ir, rules) -> violations
with abstract signatures.  Deliberately boring.
"""
import ast
import re

from mc.alphabets import NoneStr, tclass, vkind

ABSENT = "<absent>"
DEF_RE = re.compile(r"\s*[Dd]efaults? to .*$", re.S)


def selfcheck():
    import cdd.shared.ast_utils

    assert cdd.shared.ast_utils.NoneStr == NoneStr


def normdoc(d, strip_default=True):
    """descriptions are compared up to whitespace, one terminal full stop and a trailing 'Defaults to ...' clause"""
    if d is None:
        return ""
    if not isinstance(d, str):
        return "<non-str %s>" % type(d).__name__
    if strip_default:
        d = DEF_RE.sub("", d)
    d = " ".join(d.split())
    if d.endswith("."):
        d = d[:-1]
    return d.rstrip()


def normdefault(v):
    """AST-valued defaults are rendered so they can be compared / printed"""
    if isinstance(v, ast.AST):
        return "<ast %s>" % ast.dump(v)
    return v


def entry(name, p):
    return dict(
        name=name,
        typ=p.get("typ"),
        default=normdefault(p["default"]) if "default" in p else ABSENT,
        doc=normdoc(p.get("doc")),
        keys=sorted(map(str, p.keys())),
    )


def project(ir):
    out = [entry(n, p) for n, p in (ir.get("params") or {}).items()]
    r = ir.get("returns")
    ret = None
    if r and "return_type" in r:
        ret = entry("return_type", r["return_type"])
    return out, ret


def same_default(a, b):
    if a == ABSENT or b == ABSENT:
        return a == b
    if type(a) is not type(b):
        return False
    return a == b


def _dockind(exp, obs):
    if obs == exp:
        return "equal"
    if obs == "":
        return "lost"
    if exp == "":
        return "invented"
    if obs.startswith(exp):
        return "suffix_added"
    if obs.endswith(exp):
        return "prefix_added"
    if exp.startswith(obs):
        return "truncated"
    return "changed"


def literal_members(t):
    if isinstance(t, str) and t.startswith("Literal["):
        try:
            node = ast.parse(t, mode="eval").body
            sl = node.slice
            elts = sl.elts if isinstance(sl, ast.Tuple) else [sl]
            return frozenset(ast.literal_eval(e) for e in elts)
        except Exception:
            return None
    return None


def same_typ(a, b, literal_as_set=False):
    if a == b:
        return True
    if a is None or b is None:
        return False
    if literal_as_set:
        la, lb = literal_members(a), literal_members(b)
        if la is not None and la == lb:
            return True
        # Optional[Literal[..]] too
        if a.startswith("Optional[") and b.startswith("Optional["):
            return same_typ(a[9:-1], b[9:-1], True)
    # quoting style / whitespace inside the type string is not part of the interface
    try:
        return ast.dump(ast.parse(a, mode="eval")) == ast.dump(ast.parse(b, mode="eval"))
    except SyntaxError:
        return False


def compare_entry(exp, obs, rules, ctx):
    """exp/obs: entries; ctx: extra signature keys (position etc.) -> list of violations"""
    out = []
    base = dict(ctx)
    base.update(typ_class=tclass(exp["typ"]), default_kind=vkind(exp["default"]))

    def v(field, e, o, ek, ok):
        sig = dict(base)
        sig.update(field=field, expected=ek, observed=ok)
        out.append(dict(sig=sig, expected="%s.%s = %r" % (exp["name"], field, e), observed="%r" % (o,)))

    # type
    if not same_typ(exp["typ"], obs["typ"], rules.get("literal_as_set", False)):
        if rules.get("omit_typ") and (
            obs["typ"] is None
            or (exp["default"] != ABSENT and not isinstance(exp["default"], str) and obs["typ"] == type(exp["default"]).__name__)
            or (isinstance(exp["default"], str) and vkind(exp["default"]) in ("str", "emptystr") and obs["typ"] == "str")
        ):
            # the text does not carry the type: absent, equal, or the Python type of the written default (what any reader can infer)
            pass
        elif exp["typ"] is None and rules.get("typ_may_be_inferred"):
            pass
        else:
            v("typ", exp["typ"], obs["typ"], str(exp["typ"]), str(obs["typ"]))
    # default
    e_def, o_def = exp["default"], obs["default"]
    if rules.get("absent_default_is_none") and e_def == ABSENT:
        # documented normalisation: a function parameter without default is shown as '=None'
        if o_def not in (ABSENT, NoneStr):
            v("default", e_def, o_def, vkind(e_def), vkind(o_def))
    elif (isinstance(e_def, int) and not isinstance(e_def, bool) and isinstance(o_def, float) and e_def == o_def and (exp["typ"] or "").replace("Optional[", "").rstrip("]") == "float"):
        pass  # an int written as the default of a parameter *declared* float reads back as the equal float: the declared type decides (not a loss)
    elif not same_default(e_def, o_def):
        if rules.get("omit_default") and o_def == ABSENT:
            pass
        else:
            v("default", e_def, o_def, vkind(e_def), vkind(o_def))
    # description
    if not rules.get("ignore_doc") and exp["doc"] != obs["doc"]:
        v("doc", exp["doc"], obs["doc"], "doc", _dockind(exp["doc"], obs["doc"]))
    # keys
    extra = [k for k in obs["keys"] if k not in ("typ", "doc", "default", "x_typ")]
    if extra:
        v("keys", "typ/doc/default/x_typ", extra, "allowed", ",".join(extra))
    return out


def position(i, n):
    if n == 1:
        return "only"
    return "first" if i == 0 else ("last" if i == n - 1 else "middle")


def compare(expected_ir, observed_ir, rules, ctx):
    """field-by-field comparison of two interfaces; ctx = configuration keys for the signature"""
    out = []
    e_params, e_ret = project(expected_ir)
    o_params, o_ret = project(observed_ir)
    e_names = [e["name"] for e in e_params]
    o_names = [o["name"] for o in o_params]
    if e_names != o_names:
        if sorted(e_names) == sorted(o_names):
            kind = "reordered"
        elif set(o_names) < set(e_names):
            kind = "missing"
        elif set(o_names) > set(e_names):
            kind = "extra"
        else:
            kind = "different"
        sig = dict(ctx)
        sig.update(field="names", expected="same", observed=kind, n_params=len(e_names))
        out.append(dict(sig=sig, expected=e_names, observed=o_names))
    by_name = {o["name"]: o for o in o_params}
    n = len(e_params)
    seen_default = False
    for i, e in enumerate(e_params):
        o = by_name.get(e["name"])
        later_default = any(x["default"] != ABSENT for x in e_params[i + 1 :])
        if o is not None:
            c = dict(ctx)
            c.update(pos=position(i, n), earlier_default=seen_default, later_default=later_default, entry="param")
            out.extend(compare_entry(e, o, rules, c))
        if e["default"] != ABSENT:
            seen_default = True
    # return entry
    if rules.get("ignore_returns"):
        return out
    if rules.get("ret_only_if_default") and e_ret is not None and e_ret["default"] == ABSENT:
        e_ret_eff = None
    else:
        e_ret_eff = e_ret
    if e_ret_eff is not None and rules.get("omit_typ") and not e_ret_eff["doc"] and (e_ret_eff["default"] == ABSENT or rules.get("omit_default")):
        e_ret_eff = None  # a return entry that has only a type, emitted without types: the text carries nothing of it
    if e_ret_eff is None and o_ret is None:
        pass
    elif e_ret_eff is None or o_ret is None:
        if e_ret_eff is None and rules.get("ret_may_appear"):
            pass
        else:
            sig = dict(ctx)
            sig.update(
                field="returns",
                expected="absent" if e_ret_eff is None else "present",
                observed="absent" if o_ret is None else "present",
                any_default=seen_default,
            )
            out.append(dict(sig=sig, expected=e_ret_eff, observed=o_ret))
    else:
        c = dict(ctx)
        c.update(pos="return", earlier_default=seen_default, later_default=False, entry="return")
        rr = dict(rules)
        rr.pop("absent_default_is_none", None)
        out.extend(compare_entry(e_ret_eff, o_ret, rr, c))
    return out


def canon_ir(ir, with_doc=True):
    """canonical, hashable form of the observable interface of an IR (for graph search)"""
    params, ret = project(ir)

    def ce(e):
        d = e["default"]
        return (e["name"], e["typ"], (type(d).__name__, repr(d)), e["doc"] if with_doc else None)

    return (tuple(ce(e) for e in params), None if ret is None else ce(ret))
