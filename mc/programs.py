"""
Program alphabet: Python modules assembled from definition templates (kind x header x docstring x body/trivia).
Deterministic, simplest first.  Used by C07 (doctrans), C11 (termination of repeated doctrans) and others.
"""
import itertools

# ---- headers: (key, params source, [(name, type, has_default)], returns annotation or None) -------------------------------
HEADERS = [
    ("noparams", "", [], None),
    ("positional", "a, b", [("a", "int"), ("b", "str")], None),
    ("defaults", "a, b=5", [("a", "str"), ("b", "int")], None),
    ("annotated", "a: int, b: str = 'x'", [("a", "int"), ("b", "str")], "bool"),
    ("varargs", "a, *args, **kwargs", [("a", "int")], None),
    ("kwonly", "a, *, b=1", [("a", "int"), ("b", "int")], None),
    ("multiline", "\n    a,\n    b,\n", [("a", "int"), ("b", "str")], None),
    ("arrow_default", "a, sep='->'", [("a", "int"), ("sep", "str")], None),
    ("callable_ann", "cb: Callable[[int], int], n: int", [("cb", "Callable[[int], int]"), ("n", "int")], "int"),
    ("posonly", "a, /, b", [("a", "int"), ("b", "int")], None),
    ("posonly_defaults", "a=1, b=2, /, c=3", [("a", "int"), ("b", "int"), ("c", "int")], None),
    ("posonly_defaults_annotated", "a: int = 1, /, b: int = 2, *, c: int = 3", [("a", "int"), ("b", "int"), ("c", "int")], "int"),
    ("annotated_nodefault", "a: int, b: str", [("a", "int"), ("b", "str")], "bool"),
    ("arrow_default_annotated", "a: int, sep: str = '->'", [("a", "int"), ("sep", "str")], "int"),
    # return annotations with brackets of their own, on headers whose parameter list is not re-rendered when annotations are dropped
    ("ret_paren_plain", "a, b", [("a", "int"), ("b", "str")], "Tuple[()]"),
    ("ret_paren_kwonly", "a, *, b: int = 1", [("a", "int"), ("b", "int")], "Optional[Tuple[(int, str)]]"),
    ("ret_call_noparams", "", [], "Annotated[int, Gt(0)]"),
    ("ret_plain_unannotated", "a, b=(1, 2)", [("a", "int"), ("b", "Tuple[int, int]")], "Dict[str, int]"),
]
HEADER_KEYS = [h[0] for h in HEADERS]
RET_HEADERS = [h[0] for h in HEADERS if h[0].startswith("ret_")]  # the return annotation is written although the parameters carry none


def docstring_for(style, params, returns, with_types=True):
    """docstring body (no quotes, no indentation)"""
    if style == "none":
        return None
    if style == "oneline":
        return "Summary of it."
    if style == "blank":
        return "   "
    if style == "rest_typesonly":
        # nothing but type lines: the docstring becomes empty once the types move into the signature
        return "\n".join([":type %s: ```%s```" % (n, t) for n, t in params] + ([":rtype: ```%s```" % returns] if returns else [])) or "   "
    lines = ["Summary of it.", ""]
    if style == "rest":
        for n, t in params:
            lines.append(":param %s: the %s" % (n, n))
            if with_types:
                lines.append(":type %s: ```%s```" % (n, t))
            lines.append("")
        if returns:
            lines.append(":return: the result")
            if with_types:
                lines.append(":rtype: ```%s```" % returns)
    elif style == "google":
        if params:
            lines.append("Args:")
            for n, t in params:
                lines.append("  %s (%s): the %s" % (n, t, n) if with_types else "  %s: the %s" % (n, n))
            lines.append("")
        if returns:
            lines.append("Returns:")
            lines.append("  %s: the result" % returns if with_types else "  the result")
    elif style == "numpydoc":
        if params:
            lines += ["Parameters", "----------"]
            for n, t in params:
                lines.append("%s : %s" % (n, t))
                lines.append("    the %s" % n)
            lines.append("")
        if returns:
            lines += ["Returns", "-------", returns, "    the result"]
    while lines and lines[-1] == "":
        lines.pop()
    return "\n".join(lines)


DOCSTYLES = ["none", "oneline", "rest", "rest_notypes", "google", "numpydoc", "rest_partial", "google_partial", "rest_reversed", "rest_typesonly", "blank"]
BODIES = [
    ("docstring_only", []),  # an interface stub: the docstring is the whole body (not combined with docstyle "none")
    ("pass", ["pass"]),
    ("two_stmts", ["x = 1  # trailing comment", "return x"]),
    ("comment_block", ["# leading comment", "# second line", "y = [1,", "     2]", "return y"]),
    ("blank_lines", ["z = 'text'", "", "", "return z"]),
]
KINDS = ["function", "async_function", "method", "nested", "class_attrs", "method_deco", "function_deco", "in_method", "under_if", "under_try"]


def render_def(kind, header_key, docstyle, body_key, name="f", indent=""):
    """-> source text of one definition (ends with a newline)"""
    _, params_src, params, returns = next(h for h in HEADERS if h[0] == header_key)
    body = dict(BODIES)[body_key]
    style, with_types = ("rest", False) if docstyle == "rest_notypes" else (docstyle, True)
    if docstyle in ("rest_partial", "google_partial"):
        style, params = docstyle.split("_")[0], params[-1:]  # only the last parameter is documented
    elif docstyle == "rest_reversed":
        style, params = "rest", params[::-1]  # documented in the opposite order of the signature

    def block(ind, head_params, pars, rets, decorator=None, is_async=False, self_first=False):
        ps = head_params
        if self_first:
            ps = "self" + (", " + ps if ps.strip() else "")
            if head_params.startswith("\n"):
                ps = "\n    self," + head_params
        out = []
        if decorator:
            out.append(ind + decorator)
        head = "%s%sdef %s(%s)%s:" % (ind, "async " if is_async else "", name, ps.replace("\n", "\n" + ind), " -> %s" % rets if rets and (":" in head_params or header_key in RET_HEADERS) else "")
        out.append(head)
        doc = docstring_for(style, pars, rets, with_types)
        inner = ind + "    "
        if doc is not None:
            if "\n" in doc:
                out.append(inner + '"""')
                out += [(inner + l) if l else "" for l in doc.split("\n")]
                out.append(inner + '"""')
            else:
                out.append(inner + '"""%s"""' % doc)
        out += [(inner + l) if l else "" for l in body]
        return out

    if kind == "function":
        lines = block(indent, params_src, params, returns)
    elif kind == "async_function":
        lines = block(indent, params_src, params, returns, is_async=True)
    elif kind == "method":
        lines = [indent + "class K%s(object):" % name.upper(), indent + '    """Holder."""', ""]
        lines += block(indent + "    ", params_src, params, returns, decorator=None, self_first=True)
    elif kind == "method_deco":
        lines = [indent + "class K%s(object):" % name.upper(), indent + '    """Holder."""', ""]
        lines += block(indent + "    ", params_src, params, returns, decorator="@functools.lru_cache(maxsize=None)", self_first=True)
    elif kind == "function_deco":
        lines = [indent + "@register('load', priority=(1, 2))", indent + "@plain"] + block(indent, params_src, params, returns)
    elif kind == "nested":
        lines = [indent + "def outer_%s(q):" % name, indent + '    """Outer."""', indent + "    # before inner"]
        lines += block(indent + "    ", params_src, params, returns)
        lines += [indent + "    return %s" % name]
    elif kind == "in_method":
        # a definition whose real indentation is deeper than its ancestry of definitions suggests: def inside a method of a class
        lines = [indent + "class K%s(object):" % name.upper(), indent + '    """Holder."""', "", indent + "    def outer(self, q):", indent + '        """Outer."""']
        lines += block(indent + "        ", params_src, params, returns)
        lines += [indent + "        return %s" % name]
    elif kind in ("under_if", "under_try"):
        head = "if CONST:" if kind == "under_if" else "try:"
        lines = [indent + head]
        lines += block(indent + "    ", params_src, params, returns)
        lines += [indent + "else:", indent + "    %s = None" % name] if kind == "under_if" else [indent + "except ImportError:", indent + "    %s = None" % name]
    elif kind == "class_attrs":
        doc = None if style == "none" else ("Summary of it." if style == "oneline" else None)
        lines = [indent + "class C%s(Base, metaclass=Meta):" % name.upper()]
        cdoc = docstring_for(style, [("p", "int"), ("q", "str")], None, with_types)
        if cdoc is not None:
            cdoc = cdoc.replace(":param ", ":cvar ")
            inner = indent + "    "
            if "\n" in cdoc:
                lines.append(inner + '"""')
                lines += [(inner + l) if l else "" for l in cdoc.split("\n")]
                lines.append(inner + '"""')
            else:
                lines.append(inner + '"""%s"""' % cdoc)
        lines += [indent + "    p: int = 5  # the p", indent + "    q = 'v'", ""]
        lines += block(indent + "    ", params_src, params, returns, decorator="@staticmethod" if not params_src.strip() else None, self_first=bool(params_src.strip()))
    else:
        raise ValueError(kind)
    return "\n".join(lines) + "\n"


PRELUDE = "# module comment\nimport os\n\nCONST = 5  # a constant\n\n\n"
POSTLUDE = "\n\nif __name__ == '__main__':\n    print(CONST)  # done\n"


def single_programs(kinds=KINDS, headers=HEADER_KEYS, docstyles=DOCSTYLES, bodies=None):
    bodies = bodies or [b[0] for b in BODIES]
    for kind, hk, ds, bk in itertools.product(kinds, headers, docstyles, bodies):
        if bk == "docstring_only" and ds == "none":
            continue  # a definition without any body is not Python
        yield dict(defs=[[kind, hk, ds, bk]]), PRELUDE + render_def(kind, hk, ds, bk, "f") + POSTLUDE


SUB = [
    ["function", "positional", "rest", "two_stmts"],
    ["function", "annotated_nodefault", "oneline", "pass"],
    ["function", "defaults", "google", "comment_block"],
    ["method", "positional", "numpydoc", "two_stmts"],
    ["method", "annotated", "rest", "pass"],
    ["nested", "positional", "rest", "blank_lines"],
    ["class_attrs", "positional", "rest", "pass"],
    ["async_function", "positional", "google", "two_stmts"],
    ["function", "noparams", "none", "comment_block"],
    ["function", "kwonly", "rest_notypes", "pass"],
    ["function", "callable_ann", "rest", "two_stmts"],
    ["function", "multiline", "rest", "pass"],
    ["method_deco", "annotated_nodefault", "rest", "two_stmts"],
    ["function_deco", "positional", "google", "pass"],
]


def pair_programs(sub=SUB, same_name=(False, True)):
    for a, b in itertools.product(sub, repeat=2):
        for sn in same_name:
            src = PRELUDE + render_def(*a, name="f") + "\n\n# between\n" + render_def(*b, name="f" if sn else "g") + POSTLUDE
            yield dict(defs=[a, b], same_name=sn), src


def render_program(key):
    if len(key["defs"]) == 1:
        return PRELUDE + render_def(*key["defs"][0], name="f") + POSTLUDE
    a, b = key["defs"]
    return PRELUDE + render_def(*a, name="f") + "\n\n# between\n" + render_def(*b, name="f" if key.get("same_name") else "g") + POSTLUDE


# ---- file-level layout variants (applied to a rendered program) ---------------------------------------------------------------------
LAYOUTS = ["lf", "crlf", "tabs", "no_trailing_newline", "single_quote_doc", "raw_doc", "semicolon_body", "blank_after_header", "blank_after_docstring", "comment_after_header"]


def _after_headers(src, what):
    """insert `what` (a blank line, or a comment line at body indentation) between every def/class header and the first statement of its body"""
    import ast

    lines = src.split("\n")
    at = []
    for node in ast.walk(ast.parse(src)):
        if isinstance(node, (ast.FunctionDef, ast.AsyncFunctionDef, ast.ClassDef)) and node.body[0].lineno > node.lineno:
            first = node.body[0]
            at.append((first.lineno - 1, " " * first.col_offset))
    for idx, ind in sorted(at, reverse=True):
        lines.insert(idx, "" if what == "blank" else ind + "# note under the header")
    return "\n".join(lines)


def _after_docstrings(src):
    import ast

    lines = src.split("\n")
    at = []
    for node in ast.walk(ast.parse(src)):
        if isinstance(node, (ast.FunctionDef, ast.AsyncFunctionDef, ast.ClassDef)) and len(node.body) > 1 and isinstance(node.body[0], ast.Expr) and isinstance(getattr(node.body[0], "value", None), ast.Constant) \
                and isinstance(node.body[0].value.value, str):
            at.append(node.body[0].end_lineno)
    for idx in sorted(at, reverse=True):
        lines.insert(idx, "")
    return "\n".join(lines)


def apply_layout(src, layout):
    if layout == "lf":
        return src
    if layout == "crlf":
        return src.replace("\n", "\r\n")
    if layout == "tabs":
        return src.replace("    ", "\t")
    if layout == "no_trailing_newline":
        return src.rstrip("\n")
    if layout == "single_quote_doc":
        return src.replace('"""', "'''")
    if layout == "raw_doc":
        return src.replace('"""', 'r"""', 1) if src.count('"""') >= 2 else src
    if layout == "blank_after_header":
        return _after_headers(src, "blank")
    if layout == "comment_after_header":
        return _after_headers(src, "comment")
    if layout == "blank_after_docstring":
        return _after_docstrings(src)
    if layout == "semicolon_body":
        return src.replace("x = 1  # trailing comment", "x = 1; w = 2  # trailing comment").replace("pass\n", "pass; pass\n", 1)
    raise ValueError(layout)


ONE_LINERS = [
    ("oneline_def_doc", 'def f(a, b): """Summary of it."""\n'),
    ("oneline_def_pass", "def f(a, b): pass\n"),
    ("oneline_class_doc", 'class K(object): """Summary of it."""\n'),
]
