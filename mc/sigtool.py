"""Group dumped signatures:  python -m mc.sigtool file.json key1,key2,... [filter k=v ...]"""
import json, sys, os
from collections import Counter, defaultdict
d = json.load(open(sys.argv[1]))
keys = sys.argv[2].split(",") if len(sys.argv) > 2 and sys.argv[2] else None
SHOW = "--ex" in sys.argv
flt = dict(a.split("=", 1) for a in sys.argv[3:] if a != "--ex")
def ok(s):
    return all(str(s.get(k)) == v for k, v in flt.items())
d = [e for e in d if ok(e["sig"]) and not e.get("known")]
if keys is None:
    c = Counter()
    for e in d:
        for k, v in e["sig"].items():
            c[(k, str(v))] += 1
    for (k, v), n in sorted(c.items()):
        print(k, v, n)
else:
    g = defaultdict(lambda: [0, 0, None])
    for e in d:
        k = tuple(str(e["sig"].get(x)) for x in keys)
        g[k][0] += 1
        g[k][1] += e["count"]
        g[k][2] = g[k][2] or e["example"]
    for k, (ns, nc, ex) in sorted(g.items(), key=lambda kv: -kv[1][1]):
        print(ns, nc, dict(zip(keys, k)))
        if SHOW:
            c = ex["case"]
            ir = c.get("ir", c)
            short = {"params": ir.get("params"), "returns": ir.get("returns")} if isinstance(ir, dict) and "params" in ir else ir
            cfg = c.get("cfg")
            if isinstance(cfg, dict):
                cfg = {k: v for k, v in cfg.items()}
            print("    case:", json.dumps(short, default=repr)[:400], "cfg:", cfg)
            print("    expected:", str(ex.get("expected"))[:200], "| observed:", str(ex.get("observed"))[:200])
            if ex.get("detail"):
                print("    text: " + repr(ex["detail"])[:int(os.environ.get("TXT", "300"))])
print(len(d), "signatures")
if "--ex" in sys.argv or True:
    pass
