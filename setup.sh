#!/bin/sh
# Offline setup: install jsonschema (+deps) and networkx into /verif/.deps from the local wheelhouse.
set -e
cd "$(dirname "$0")"
if [ ! -d .deps/jsonschema ]; then
  /venv/bin/pip install --quiet --no-index --find-links /opt/veriftools/wheels --target .deps jsonschema networkx
fi
mkdir -p evidence replays
/venv/bin/python -c "import sys; sys.path.append('.deps'); import jsonschema, networkx; print('setup ok')"
