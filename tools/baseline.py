#!/venv/bin/python
"""baseline.py <repo dir> [--fast]: run the repository's suite in <repo dir> and compare with /root/.vp/BASELINE.json stable_pass.
Exit 0 iff every stable-pass test passes."""
import json, os, subprocess, sys, tempfile
import xml.etree.ElementTree as ET

repo = os.path.abspath(sys.argv[1])
fast = "--fast" in sys.argv
base = json.load(open("/root/.vp/BASELINE.json"))
stable = set(base["stable_pass"])
with tempfile.NamedTemporaryFile(suffix=".xml", delete=False) as f:
    xml = f.name
cmd = [
    "/venv/bin/python", "-m", "pytest", "-q", "-p", "no:cacheprovider", "--timeout=900", "--continue-on-collection-errors", "--junitxml=" + xml,
]
if fast:
    cmd += ["--deselect", "cdd/tests/test_compound/test_exmod.py"]
env = dict(os.environ, PYTHONPATH=repo, PYTHONDONTWRITEBYTECODE="1")
for k in ("CDD_VERIF",):
    env.pop(k, None)
p = subprocess.run(cmd, cwd=repo, env=env, stdout=subprocess.PIPE, stderr=subprocess.STDOUT, text=True)
passed = set()
for tc in ET.parse(xml).getroot().iter("testcase"):
    name = "{}::{}".format(tc.get("classname"), tc.get("name"))
    cls = tc.get("classname")
    # BASELINE ids look like module.Class::test
    if not any(ch.tag in ("failure", "error", "skipped") for ch in tc):
        passed.add(name)
os.unlink(xml)
if fast:
    stable = {t for t in stable if ".test_exmod." not in t}
missing = sorted(stable - passed)
print("stable_pass=%d passed_now=%d missing=%d" % (len(stable), len(passed & stable), len(missing)))
for m in missing[:30]:
    print("  FAIL", m)
sys.exit(1 if missing else 0)
