#!/venv/bin/python
"""Regenerate the table of DESIGN.md section 8.1 (between the TABLE81 markers) from evidence/*.json and known_findings.json."""
import glob
import json
import re

kf = json.load(open("/verif/known_findings.json"))
fixed = {}
for line in kf["fixed"]:
    m = re.search(r"property=(C\d\d)", line)
    fixed[m.group(1)] = fixed.get(m.group(1), 0) + 1
pats = {}
for f in kf["findings"]:
    pats[f["property"]] = pats.get(f["property"], 0) + 1
rows = ["| id | cases | transitions (real calls) | states | distinct outcomes | quick wall | known-finding patterns (matched in this run) | masked records | repairs |", "|---|---|---|---|---|---|---|---|---|"]
tot = 0.0
for path in sorted(glob.glob("/verif/evidence/C*.json")):
    e = json.load(open(path))
    c = e["coverage"]
    pid = e["property_id"]
    tot += e["wall_s"]
    rows.append("| %s | %s | %s | %s | %s | %.0f s | %d (%d) | %s | %d |" % (
        pid, "{:,}".format(c["evaluations"]).replace(",", " "), "{:,}".format(c["transitions"]).replace(",", " "), "{:,}".format(c["states"]).replace(",", " "),
        c["distinct_outcomes"], e["wall_s"], pats.get(pid, 0), len(c["known_findings_matched"]), "{:,}".format(c["masked_violation_records"]).replace(",", " "), fixed.get(pid, 0)))
table = "\n".join(rows) + "\n\nSum of the quick wall times: %.0f s; tier %s, seed %s; %d patterns, %d repairs recorded.\n" % (tot, e["tier"], e["seed"], len(kf["findings"]), len(kf["fixed"]))
s = open("/verif/DESIGN.md").read()
s2 = re.sub(r"<!-- TABLE81 BEGIN -->.*<!-- TABLE81 END -->", "<!-- TABLE81 BEGIN -->\n" + table + "<!-- TABLE81 END -->", s, flags=re.S)
assert s2 != s or table in s
open("/verif/DESIGN.md", "w").write(s2)
print(table)
