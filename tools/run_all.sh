#!/bin/bash
# run every registered quick (or $1=thorough) check; print id, exit code, wall time, summary line
TIER=${1:-quick}
cd "$(dirname "$0")/.."
for id in $(python3 -c "import json; print(' '.join(c['property_id'] for c in json.load(open('MANIFEST.json'))['checks']))"); do
  s=$(date +%s.%N)
  out=$(./check $id --tier $TIER 2>&1); rc=$?
  e=$(date +%s.%N)
  printf "%s rc=%d %.1fs  viol=%d known=%d | %s\n" $id $rc $(echo "$e - $s" | bc) $(echo "$out" | grep -c '^VIOLATION') $(echo "$out" | grep -c '^KNOWN-FINDING') "$(echo "$out" | tail -1 | cut -c1-130)"
done
