#!/bin/bash
# seed_ingest.sh <Cxx> [extra checks...] : take a finished seeded change from /tmp/seed_<Cxx>_out, store it as /verif/seeded/<Cxx>-<next letter>,
# remove the agent's scratch worktree, verify it (tools/seed_verify.sh: baseline, demo both ways, the property's check on the patched /repo)
# and merge the verification log into meta.json as "confirmed_by_me".  Applies the patch to /repo's working tree for the duration: run serially.
set -u
ID=$1; shift
OUT=/tmp/seed_${ID}_out
for f in patch.diff demo.py meta.json; do [ -s $OUT/$f ] || { echo "missing $OUT/$f"; exit 2; }; done
last=$(ls -d /verif/seeded/$ID-? 2>/dev/null | sort | tail -1 | sed 's/.*-//')
next=$(echo "${last:-\`}" | tr 'a-y' 'b-z'); [ -n "$last" ] || next=a
SEED=$ID-$next
mkdir -p /verif/seeded/$SEED && cp $OUT/patch.diff $OUT/demo.py $OUT/meta.json /verif/seeded/$SEED/
git -C /repo worktree remove --force /tmp/seed_$ID 2>/dev/null
/verif/tools/seed_verify.sh $SEED $ID "$@" >/dev/null
/venv/bin/python - $SEED <<'EOF'
import json, sys
d = "/verif/seeded/%s/" % sys.argv[1]
try:
    m = json.load(open(d + "meta.json"))
except Exception as e:
    m = {"property": sys.argv[1][:3], "summary": "(agent's meta.json was not valid JSON: %s)" % e, "raw": open(d + "meta.json").read()}
m["confirmed_by_me"] = open(d + "result.txt").read()
json.dump(m, open(d + "meta.json", "w"), indent=1, ensure_ascii=False)
print(m["confirmed_by_me"])
print("NEEDS:", m.get("needs", "")[:1500])
EOF
