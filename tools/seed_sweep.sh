#!/bin/bash
# seed_sweep.sh : re-verify every stored seed against the current /repo HEAD and the current checks (regression test of the machinery itself).
# One line per seed: does the patch still apply, demo clean/patched, suite, check exit code and VIOLATION lines.  Needs /repo's working tree free.
cd /verif
mkdir -p scratch
# usage: seed_sweep.sh [prefix ...]   e.g. seed_sweep.sh C01 C07   (default: all); SEED_FAST=1 skips the repository suite per seed
PREFIXES="${*:-C}"
for d in seeded/C*/; do
  case_ok=0; for p in $PREFIXES; do case "$(basename $d)" in $p*) case_ok=1;; esac; done; [ $case_ok = 1 ] || continue
  sid=$(basename $d); c=${sid%%-*}
  SEED_OUT=/verif/scratch/sweep_$sid.txt tools/seed_verify.sh $sid $c >/dev/null 2>&1
  echo "$sid: $(grep -E 'PATCH DOES NOT APPLY|demo on|stable_pass|^check' scratch/sweep_$sid.txt | tr '\n' ' ' | cut -c1-260)"
done
