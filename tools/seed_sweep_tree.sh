#!/bin/bash
# seed_sweep_tree.sh [prefix ...] : like seed_sweep.sh, but on a scratch worktree (SWEEP_TREE, default /tmp/sweeprepo) instead of /repo, so that /repo stays free.
# One line per seed: patch applies?, demo on the clean / patched tree, the property's quick check on the patched tree (exit code, VIOLATION lines).
W=${SWEEP_TREE:-/tmp/sweeprepo}
cd /verif
PREFIXES="${*:-C}"
# SWEEP_LIST=<file of seed ids> restricts the sweep to those; VERIF_MAX_REPORT=2 (default here) keeps the per-seed replays short
export VERIF_MAX_REPORT=${VERIF_MAX_REPORT:-2}
for d in seeded/C*/; do
  ok=0; for p in $PREFIXES; do case "$(basename $d)" in $p*) ok=1;; esac; done; [ $ok = 1 ] || continue
  if [ -n "${SWEEP_LIST:-}" ]; then grep -qx "$(basename $d)" "$SWEEP_LIST" || continue; fi
  sid=$(basename $d); c=${sid%%-*}
  git -C $W checkout -q -- .
  ( cd $W && PYTHONPATH=$W timeout 120 /venv/bin/python /verif/$d/demo.py >/dev/null 2>&1 ); dc=$?
  if ! git -C $W apply /verif/$d/patch.diff 2>/dev/null; then echo "$sid: PATCH DOES NOT APPLY (demo on clean tree: exit $dc)"; continue; fi
  ( cd $W && PYTHONPATH=$W timeout 120 /venv/bin/python /verif/$d/demo.py >/dev/null 2>&1 ); dp=$?
  out=$(VERIF_EVIDENCE_DIR=/tmp/ev_sweep PYTHONPATH=$W CDD_REPO=$W timeout 900 ./check $c --tier quick 2>&1); rc=$?
  echo "$sid: demo on clean tree: exit $dc demo on patched tree: exit $dp check $c: exit $rc; $(echo "$out" | grep -c '^VIOLATION') VIOLATION lines"
  git -C $W checkout -q -- .
done
