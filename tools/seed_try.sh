#!/bin/bash
# seed_try.sh <seed-id | patch file> <check ids...> : apply a stored change to the development worktree /tmp/fixrepo (never /repo), run the listed
# quick checks against it (PYTHONPATH/CDD_REPO point there), revert.  For developing a strengthening while /repo is in use elsewhere.
set -u
W=${FIXREPO:-/tmp/fixrepo}
P=$1; shift
[ -f "$P" ] || P=/verif/seeded/$P/patch.diff
git -C $W checkout -q -- . && git -C $W apply "$P" || { echo "PATCH DOES NOT APPLY"; exit 3; }
for c in "$@"; do
  out=$(cd /verif && VERIF_EVIDENCE_DIR=/tmp/ev_scratch PYTHONPATH=$W CDD_REPO=$W ./check $c --tier ${TIER:-quick} 2>&1); rc=$?
  echo "check $c: exit $rc; $(echo "$out" | grep -c '^VIOLATION') VIOLATION lines"
  echo "$out" | grep -E "^  signature" | head -${NSIG:-3} | cut -c1-400
done
git -C $W checkout -q -- .
