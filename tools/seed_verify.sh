#!/bin/bash
# seed_verify.sh <seed-id> <check-ids...> : verify a seeded change (baseline green, demo fails with / passes without), then run the listed checks
# against /repo with the patch applied (never committed) and revert.  Seed files live in /verif/seeded/<seed-id>/.
set -u
SEED=$1; shift
DIR=/verif/seeded/$SEED
SCRATCH=/tmp/seedcheck_$$
git -C /repo worktree add -q --detach $SCRATCH HEAD || exit 2
trap 'git -C /repo worktree remove --force $SCRATCH >/dev/null 2>&1; git -C /repo checkout -- . ' EXIT
{
echo "== seed $SEED at repo $(git -C /repo rev-parse --short HEAD) $(date -u +%FT%TZ)"
( cd $SCRATCH && PYTHONPATH=$SCRATCH /venv/bin/python $DIR/demo.py >/dev/null 2>&1 ); echo "demo on clean tree: exit $?"
if ! git -C $SCRATCH apply $DIR/patch.diff; then echo "PATCH DOES NOT APPLY"; exit 3; fi
( cd $SCRATCH && PYTHONPATH=$SCRATCH /venv/bin/python $DIR/demo.py >/dev/null 2>&1 ); echo "demo on patched tree: exit $?"
[ -n "${SEED_FAST:-}" ] || /verif/tools/baseline.py $SCRATCH --fast | head -5   # SEED_FAST=1: skip the repository suite (re-verification sweeps)
git -C /repo apply $DIR/patch.diff || { echo "PATCH DOES NOT APPLY TO /repo"; exit 3; }
for c in "$@"; do
  out=$(cd /verif && ./check $c --tier quick 2>&1); rc=$?
  echo "check $c: exit $rc; $(echo "$out" | grep -c '^VIOLATION') VIOLATION lines"
  echo "$out" | grep -E "^  signature" | head -3 | cut -c1-400
done
git -C /repo checkout -- .
} 2>&1 | tee ${SEED_OUT:-$DIR/result.txt}
